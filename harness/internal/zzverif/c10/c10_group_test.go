// C10, several clients in one process (DESIGN.md §4 C10).
//
// One socketace client process can hold several DNS tunnel connections (one per upstream / per channel), each with
// its own polling goroutine and its own Serializer; all of them decode their answers in the same process at the same
// time and share whatever the decoding path keeps at package level. A group is such a process: every client (lane)
// receives its own stream of answers, formed and packed the way the server does, and puts them through
// dns.Msg.Unpack -> Serializer.DecodeDnsResponseWithParams while the others do the same. The oracle is the one of the
// sequential cases: identical = ok, a reported failure = ok, decoded without error but different = violation; a
// response a client still holds is compared again after the following answers (retainer).
//
// Some clients use a downstream codec that yields the processor at the start of Encode/Decode and otherwise delegates
// to the real codec (the codec is a parameter of the decoder). That only moves the points where the scheduler
// switches between clients; it never decides anything.
package c10

import (
	"fmt"
	"runtime"
	"sync"

	"github.com/bokysan/socketace/v2/internal/streams/dns/commands"
	"github.com/bokysan/socketace/v2/internal/streams/dns/util"
	"github.com/bokysan/socketace/v2/internal/util/enc"
	"github.com/bokysan/socketace/v2/internal/zzverif/vcommon"
	"github.com/miekg/dns"
)

type groupDesc struct {
	Seed    int64 `json:"seed"`
	Index   int   `json:"index"`
	Lanes   int   `json:"clients"`
	PerLane int   `json:"answers_per_client"`
	Passes  int   `json:"passes"`
	Procs   int   `json:"gomaxprocs"`
	Lane    int   `json:"seen_by_client"` // informational
}

// yielding is a downstream codec that lets other goroutines run before it does its work.
type yielding struct{ enc.Encoder }

func (y yielding) Encode(b []byte) []byte {
	runtime.Gosched()
	return y.Encoder.Encode(b)
}

func (y yielding) Decode(b []byte) ([]byte, error) {
	runtime.Gosched()
	return y.Encoder.Decode(b)
}

type answer struct {
	d    caseDesc
	want commands.Response
	wire []byte
	cell string
}

type laneDiff struct {
	lane int
	a    answer
	diff string
	got  string
}

// groupCases is the stream of answers of one client: mostly data packets of the sizes a tunnel carries, the probes
// of the negotiation phase, and responses without a payload.
func groupCases(g groupDesc, lane int) (q *qtype, code byte, out []caseDesc) {
	rng := vcommon.NewRand(g.Seed, fmt.Sprintf("c10/group/%d/client/%d", g.Index, lane))
	q = &qtypes[(lane+g.Index)%len(qtypes)]
	code = codecCodes[(lane/len(qtypes)+lane+g.Index*3)%len(codecCodes)]
	dom := domains[rng.Intn(len(domains))]
	for i := 0; i < g.PerLane; i++ {
		d := caseDesc{Qtype: q.name, Codec: string(code), Domain: dom, QStyle: qstyles[rng.Intn(len(qstyles))]}
		if rng.Intn(2) == 0 {
			d.Query, d.Edns0, d.UpLen, d.QStyle = "client", rng.Intn(2) == 0, rng.Intn(120), ""
		}
		d.User = uint16(rng.Intn(1296))
		switch r := rng.Intn(20); {
		case r < 11:
			d.Resp, d.Gen = "Packet/data", "random"
			d.Len = rng.Intn(1201)
			if rng.Intn(8) == 0 {
				d.Len = rng.Intn(8193)
			}
			d.Key = rng.Uint64()
			if rng.Intn(4) == 0 {
				d.Gen, d.Key = contentGens[rng.Intn(len(contentGens))], uint64(rng.Intn(1000))
			}
			d.Ack, d.Seq = uint16(rng.Intn(65536)), uint16(rng.Intn(65536))
		case r < 13:
			d.Resp, d.Gen, d.Len = "DownEnc", "codeccheck", len(util.DownloadCodecCheck)
		case r < 15:
			d.Resp, d.Gen, d.Len = "FragSize", "frag107", rng.Intn(1201)
		case r < 16:
			d.Resp, d.Gen, d.Len, d.Key = "UpEnc", "random", rng.Intn(200), rng.Uint64()
		case r < 17:
			d.Resp, d.Ver = "Version", rng.Uint32()
		case r < 18:
			d.Resp, d.Ack = "Packet/none", uint16(rng.Intn(65536))
		case r < 19:
			d.Resp = "SetOptions"
		default:
			d.Resp, d.Err = "Packet+err", commands.BadErrors[rng.Intn(len(commands.BadErrors))].Error()
		}
		out = append(out, d)
	}
	return
}

// runGroup runs one group and reports what its clients saw.
func (h *harness) runGroup(g groupDesc) string {
	rec := h.rec
	prevProcs := runtime.GOMAXPROCS(g.Procs)
	defer runtime.GOMAXPROCS(prevProcs)

	var mu sync.Mutex
	var diffs []laneDiff
	type panicInfo struct {
		lane      int
		d         caseDesc
		site, val string
		stage     string
	}
	var panics []panicInfo

	start := make(chan struct{})
	var ready, done sync.WaitGroup
	for l := 0; l < g.Lanes; l++ {
		ready.Add(1)
		done.Add(1)
		go func(lane int) {
			defer done.Done()
			q, code, cases := groupCases(g, lane)
			real := h.codecs[code]
			var codec enc.Encoder = real
			if lane%2 == 1 {
				codec = yielding{real}
			}
			gd := g
			gd.Lane = lane

			// the server's side: form and pack every answer of this client
			var answers []answer
			for _, d := range cases {
				k := kindByName(d.Resp)
				d.CodecName = real.Name()
				req, err := formQuery(d, q)
				if err != nil {
					rec.Stat("group_query_not_formable", 1)
					continue
				}
				srv := commands.Serializer{Domain: d.Domain, Downstream: util.DownstreamConfig{Encoder: codec, FragmentSize: 1534}}
				want := build(d)
				var wire []byte
				stage := "encode"
				p, site, val := vcommon.Guard(func() {
					var msg *dns.Msg
					if msg, err = srv.EncodeDnsResponseWithParams(want, req, q.t, codec); err != nil {
						return
					}
					stage = "pack"
					if wire, err = msg.Pack(); err == nil && len(wire) > dns.MaxMsgSize {
						err = fmt.Errorf("too large for DNS")
					}
				})
				if p {
					mu.Lock()
					panics = append(panics, panicInfo{lane, d, site, val, stage})
					mu.Unlock()
					continue
				}
				if err != nil {
					rec.Stat("group_reported_failure:"+stage, 1)
					continue
				}
				eff := "Base32fixed"
				if k.usesCodec {
					eff = real.Name()
				}
				answers = append(answers, answer{d: d, want: want, wire: wire, cell: d.Qtype + ":" + eff + ":" + k.family})
			}
			ready.Done()
			<-start

			// the client's side
			var keep retainer
			for pass := 0; pass < g.Passes; pass++ {
				for _, a := range answers {
					cli := commands.Serializer{Domain: a.d.Domain, Downstream: util.DownstreamConfig{Encoder: codec, FragmentSize: 1534}}
					var got commands.Response
					var err error
					stage := "unpack"
					p, site, val := vcommon.Guard(func() {
						m2 := new(dns.Msg)
						if err = m2.Unpack(a.wire); err != nil {
							return
						}
						stage = "decode"
						got, err = cli.DecodeDnsResponseWithParams(m2, codec)
					})
					rec.Stat("group_answers_decoded", 1)
					if stage == "decode" {
						keep.later(rec, a.d, &gd)
					}
					if p {
						mu.Lock()
						panics = append(panics, panicInfo{lane, a.d, site, val, stage})
						mu.Unlock()
						continue
					}
					if err != nil {
						rec.Stat("group_reported_failure:"+stage, 1)
						continue
					}
					diff, n := same(a.want, got)
					if diff == "" {
						rec.Stat("group_ok_identical", 1)
						rec.Stat("payload_bytes_compared_equal", int64(n))
						rec.Seen("group_ok_identical_cells", a.cell)
						if pass == 0 {
							rec.Case("group|"+fmt.Sprint(g.Index, "|", lane, "|")+caseKey(a.d), true)
						}
						keep.hold(a.d, a.want, got, a.cell)
						continue
					}
					mu.Lock()
					if len(diffs) < 200 {
						diffs = append(diffs, laneDiff{lane, a, diff, describe(got)})
					}
					mu.Unlock()
				}
			}
		}(l)
	}
	ready.Wait()
	close(start)
	done.Wait()
	runtime.GOMAXPROCS(prevProcs)
	rec.Stat("groups_run", 1)
	rec.Seen("group_shapes", fmt.Sprintf("%d clients x %d answers x %d passes on %d processors", g.Lanes, g.PerLane, g.Passes, g.Procs))

	out := fmt.Sprintf("group %d: %d differing answers, %d panics", g.Index, len(diffs), len(panics))
	for _, p := range panics {
		gd := g
		gd.Lane = p.lane
		d := p.d
		d.Group = &gd
		sig := fmt.Sprintf("concurrent-clients:%s:panic@%s:stage=%s", p.d.Qtype, p.site, p.stage)
		rec.Violation(sig, d, map[string]interface{}{"panic": p.val, "stage": p.stage})
		out += "\nVIOLATION " + sig
	}
	// A differing answer is put through the pipeline once more with nothing else running: when it differs there as
	// well, it is a finding of the sequential cases (reported by run under its own signature), not one of this group.
	reported := map[string]bool{}
	for _, x := range diffs {
		key := caseKey(x.a.d)
		if reported[key] {
			continue
		}
		reported[key] = true
		before := rec.ViolationCount()
		alone := h.run(x.a.d)
		if rec.ViolationCount() > before {
			rec.Stat("group_diffs_that_differ_alone_too", 1)
			continue
		}
		gd := g
		gd.Lane = x.lane
		d := x.a.d
		d.Group = &gd
		// which client is hit is a matter of scheduling: the signature does not name the cell
		sig := "concurrent-clients:silent-diff:identical-when-alone"
		rec.Violation(sig, d, map[string]interface{}{
			"cell": x.a.cell, "sent": describe(x.a.want), "differs_in": x.diff, "decoded": x.got, "same_answer_decoded_alone": alone,
		})
		out += "\nVIOLATION " + sig
	}
	return out
}
