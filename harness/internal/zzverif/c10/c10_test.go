// C10: DNS tunnel responses survive the wire for every record type (DESIGN.md §4 C10).
//
// Every case forms a response exactly the way the server does, runs it through the real
// Serializer.EncodeDnsResponseWithParams -> dns.Msg.Pack -> dns.Msg.Unpack (fresh Msg) ->
// Serializer.DecodeDnsResponseWithParams and compares what the client gets with what the server sent.
//
//	identical                                   -> ok
//	error reported by encode/pack/unpack/decode -> ok (the statement allows a reported failure), counted per stage
//	decoded without error but different         -> VIOLATION
//	panic anywhere in the pipeline              -> VIOLATION
package c10

import (
	"bytes"
	"encoding/hex"
	"encoding/json"
	"errors"
	"fmt"
	"io"
	"math/rand"
	"strings"
	"testing"

	"github.com/bokysan/socketace/v2/internal/streams/dns/commands"
	"github.com/bokysan/socketace/v2/internal/streams/dns/util"
	"github.com/bokysan/socketace/v2/internal/util/enc"
	"github.com/bokysan/socketace/v2/internal/zzverif/vcommon"
	"github.com/miekg/dns"
	"github.com/sirupsen/logrus"
	"golang.org/x/net/dns/dnsmessage"
)

// ---- dimensions ------------------------------------------------------------------------------

type qtype struct {
	name string
	t    dnsmessage.Type
	big  bool // record type that can hold > 8 KiB in one record: gets the 65520..65540 lengths
}

var qtypes = []qtype{
	{"NULL", util.QueryTypeNull, true},
	{"PRIVATE", util.QueryTypePrivate, true},
	{"TXT", util.QueryTypeTxt, false},
	{"SRV", util.QueryTypeSrv, false},
	{"MX", util.QueryTypeMx, false},
	{"CNAME", util.QueryTypeCname, false},
	{"AAAA", util.QueryTypeAAAA, false},
	{"A", util.QueryTypeA, false},
}

// every codec reachable through enc.FromCode
var codecCodes = []byte{'T', 'S', 'U', 'W', 'X', 'V', 'Y', 'R'}

// tunnel domains of several lengths (4, 11, 18, 40, 70, 120, 188, 200 characters)
var domains = []string{
	"t.co",
	"example.com",
	"tunnel.example.org",
	"dns-tunnel.department.example-company.net",
	"a-rather-long-label-for-a-tunnel-domain.with-several-more-labels.example.org",
	"x123456789.x123456789.x123456789.x123456789.x123456789.x123456789.x123456789.x123456789.x123456789.x123456789.example.com",
	// 188 and 200 characters: a host-name record then carries 60 encoded characters or fewer (one label, nothing to dotify)
	"yx123456789.x123456789.x123456789.x123456789.x123456789.x123456789.x123456789.x123456789.x123456789.x123456789.x123456789.x123456789.x123456789.x123456789.x123456789.x123456789.example.com",
	"123456789.x123456789.x123456789.x123456789.x123456789.x123456789.x123456789.x123456789.x123456789.x123456789.x123456789.x123456789.x123456789.x123456789.x123456789.x123456789.x123456789.ab.example.com",
}

// tunnel domains whose text can occur again inside an encoded payload: a single label, one or two characters,
// periodic ones; all made of characters the codecs' alphabets contain (family "domrep")
var shortDomains = []string{"a", "q", "t", "7", "aa", "ab3", "t.t", "a.a", "tunnel", "intranet", "A", "Tunnel"}

// question names: a short one, one that looks like a real data query, and the longest legal one
var qstyles = []string{"short", "mid", "long"}

func questionName(style, domain string) string {
	switch style {
	case "short":
		return "vabc." + domain + "."
	case "mid":
		return "cx7q01" + strings.Repeat("a", 40) + "." + domain + "."
	}
	// fill up to 253 characters (without the final dot) with labels of at most 57 characters
	room := 253 - len(domain) - 1
	var labels []string
	for room > 0 {
		n := 57
		if n > room {
			n = room
		}
		labels = append(labels, strings.Repeat("b", n))
		room -= n + 1
	}
	return strings.Join(labels, ".") + "." + domain + "."
}

const customErr = "Received #5 but expected #3. Acked: [1 2]: invalid sequence number"

func errorByText(s string) error {
	if s == "" {
		return nil
	}
	for _, e := range commands.BadErrors {
		if e.Error() == s {
			return e
		}
	}
	return errors.New(s)
}

// response kinds. "uses codec" = the bytes put into the records are produced by the selected
// downstream codec (otherwise the response type always uses Base32, whatever codec is selected)
type kindInfo struct {
	name      string
	family    string // response type, +/-error variants merged (signature component)
	hasErr    bool
	usesCodec bool
	payload   bool
}

var kinds = []kindInfo{
	{"Version", "Version", false, false, false},
	{"Version+err", "Version", true, false, false},
	{"SetOptions", "SetOptions", false, false, false},
	{"SetOptions+err", "SetOptions", true, false, false},
	{"Packet/none", "Packet", false, true, false},
	{"Packet/data", "Packet", false, true, true},
	{"Packet+err", "Packet", true, true, false},
	{"DownEnc", "DownEnc", false, true, true},
	{"DownEnc+err", "DownEnc", true, false, false},
	{"FragSize", "FragSize", false, true, true},
	{"FragSize+err", "FragSize", true, true, false},
	{"UpEnc", "UpEnc", false, false, true},
	{"UpEnc+err", "UpEnc", true, false, false},
	{"Error", "Error", true, false, false},
}

func kindByName(n string) *kindInfo {
	for i := range kinds {
		if kinds[i].name == n {
			return &kinds[i]
		}
	}
	return nil
}

// ---- case descriptor (replayable) ------------------------------------------------------------

type caseDesc struct {
	Resp   string `json:"resp"`
	Err    string `json:"err,omitempty"`
	Qtype  string `json:"qtype"`
	Codec  string `json:"codec"` // one-letter code
	Domain string `json:"domain"`
	QStyle string `json:"qstyle"`
	Ver    uint32 `json:"server_version,omitempty"`
	User   uint16 `json:"user_id,omitempty"`
	Ack    uint16 `json:"ack,omitempty"`
	Seq    uint16 `json:"seq,omitempty"`
	Gen    string `json:"gen,omitempty"` // payload generator
	Len    int    `json:"len,omitempty"`
	Key    uint64 `json:"key,omitempty"`
	// the query the response answers: "" = a question made by hand, without an OPT record;
	// "client" = formed by the client's own Serializer.EncodeDnsRequestWithParams (a data packet of UpLen
	// bytes going upstream; with an OPT record when Edns0 is set, as after a successful EDNS0 negotiation),
	// packed, and unpacked again on the server's side
	Query string `json:"query,omitempty"`
	Edns0 bool   `json:"edns0,omitempty"`
	UpLen int    `json:"up_len,omitempty"`
	// history: answers the same client decoded after this one, before it looked at this one again
	Then []caseDesc `json:"then,omitempty"`
	// several clients of one process at the same time (see c10_group_test.go)
	Group *groupDesc `json:"group,omitempty"`
	// informational only (not used by replay)
	CodecName  string `json:"codec_name,omitempty"`
	PayloadHex string `json:"payload_hex_head,omitempty"`
}

var specialCycle = []byte{'.', '\\', '"', ' ', '(', ')', ';', '@', 0x00, 0x7f, 0x80, 0xff, 'a', 'Z', '0', '-', '+', '$', '\t', '\n'}

func payload(gen string, n int, key uint64) []byte {
	b := make([]byte, n)
	fill := func(v byte) {
		for i := range b {
			b[i] = v
		}
	}
	switch gen {
	case "keyed", "random":
		vcommon.FillKeyed(key, 0, b)
	case "zero":
		fill(0x00)
	case "ff":
		fill(0xff)
	case "dot":
		fill('.')
	case "bslash":
		fill('\\')
	case "quote":
		fill('"')
	case "space":
		fill(' ')
	case "ctl":
		for i := range b {
			b[i] = byte((i + int(key)) % 32)
		}
	case "special":
		for i := range b {
			b[i] = specialCycle[(i+int(key))%len(specialCycle)]
		}
	case "counter":
		for i := range b {
			b[i] = byte(i + int(key))
		}
	case "digits": // "\DDD"-looking content
		for i := range b {
			b[i] = "\\065\\06"[i%7]
		}
	case "frag107": // what the server's fragment-size probe answers
		v := byte(107)
		for i := range b {
			b[i] = v
			v = (v + 107) & 0xff
		}
	case "codeccheck": // what the server's downstream-codec probe answers
		return append([]byte{}, util.DownloadCodecCheck...)
	default:
		panic("unknown generator " + gen)
	}
	return b
}

// payloadOf is the payload of a case. The generator "domtail" steers a seeded random payload so that the text the
// server puts into the answer records ends in the first label of the tunnel domain (the payload looks like the
// domain it travels under: "....tunnel.tunnel."). It only uses the real Response.Encode and the codec; when the
// length or the codec does not allow such an ending, the payload stays the random one.
func payloadOf(d caseDesc) []byte {
	if d.Gen != "domtail" {
		return payload(d.Gen, d.Len, d.Key)
	}
	base := payload("random", d.Len, d.Key)
	codec, err := enc.FromCode(d.Codec[0])
	if err != nil {
		return base
	}
	if k := kindByName(d.Resp); k == nil || !k.usesCodec {
		codec = enc.Base32Encoding
	}
	tail := d.Domain
	if i := strings.IndexByte(tail, '.'); i >= 0 {
		tail = tail[:i]
	}
	var out []byte
	vcommon.Guard(func() {
		text, err := buildWith(d, base).Encode(codec)
		if err != nil || len(text) < len(tail)+3 {
			return
		}
		goal := append(append([]byte{}, text[:len(text)-len(tail)]...), tail...)
		for off := 1; off <= 2 && out == nil; off++ { // the response's own prefix in front of the codec's text
			was, e1 := codec.Decode(append([]byte{}, text[off:]...))
			now, e2 := codec.Decode(append([]byte{}, goal[off:]...))
			if e1 != nil || e2 != nil || len(was) != len(now) {
				continue
			}
			k := 0 // bytes at the end that have to change
			for i := range was {
				if was[i] != now[i] {
					k = len(was) - i
					break
				}
			}
			if k > len(base) {
				continue
			}
			cand := append([]byte{}, base...)
			copy(cand[len(cand)-k:], now[len(now)-k:])
			if t2, err := buildWith(d, cand).Encode(codec); err == nil && bytes.HasSuffix(t2, []byte(tail)) {
				out = cand
			}
		}
	})
	if out == nil {
		return base
	}
	return out
}

func build(d caseDesc) commands.Response {
	var data []byte
	if k := kindByName(d.Resp); k != nil && k.payload {
		data = payloadOf(d)
	}
	return buildWith(d, data)
}

func buildWith(d caseDesc, data []byte) commands.Response {
	e := errorByText(d.Err)
	switch d.Resp {
	case "Version", "Version+err":
		return &commands.VersionResponse{ServerVersion: d.Ver, UserId: d.User, Err: e}
	case "SetOptions", "SetOptions+err":
		return &commands.SetOptionsResponse{Err: e}
	case "Packet/none":
		return &commands.PacketResponse{LastAckedSeqNo: d.Ack}
	case "Packet/data":
		return &commands.PacketResponse{LastAckedSeqNo: d.Ack, Packet: &util.Packet{SeqNo: d.Seq, Data: data}}
	case "Packet+err":
		return &commands.PacketResponse{Err: e}
	case "DownEnc":
		return &commands.TestDownstreamEncoderResponse{Data: data}
	case "DownEnc+err":
		return &commands.TestDownstreamEncoderResponse{Err: e}
	case "FragSize":
		return &commands.TestDownstreamFragmentSizeResponse{FragmentSize: uint32(len(data)), Data: data}
	case "FragSize+err":
		return &commands.TestDownstreamFragmentSizeResponse{Err: e}
	case "UpEnc":
		return &commands.TestUpstreamEncoderResponse{Data: data}
	case "UpEnc+err":
		// the server echoes the pattern and sets the error as well
		return &commands.TestUpstreamEncoderResponse{Data: []byte("aA0123"), Err: e}
	case "Error":
		return &commands.ErrorResponse{Err: e}
	}
	panic("unknown response kind " + d.Resp)
}

// ---- semantic comparison ---------------------------------------------------------------------

func errText(e error) string {
	if e == nil {
		return "<nil>"
	}
	return "E:" + e.Error()
}

// same compares what the server sent with what the client decoded. Errors compare by message;
// nil and empty byte slices are the same; fields that a response does not carry when it reports
// an error (documented wire format: status byte + error text) are not compared.
// It returns "" when equal, else the name of the first differing part and the payload bytes compared.
func same(want, got commands.Response) (diff string, cmpBytes int) {
	if got == nil {
		return "nil-response", 0
	}
	if fmt.Sprintf("%T", want) != fmt.Sprintf("%T", got) {
		return fmt.Sprintf("type(%T)", got), 0
	}
	data := func(a, b []byte) string {
		cmpBytes += len(a)
		if len(a) != len(b) {
			return fmt.Sprintf("payload-length(%d->%d)", len(a), len(b))
		}
		if !bytes.Equal(a, b) {
			return "payload-bytes"
		}
		return ""
	}
	switch w := want.(type) {
	case *commands.VersionResponse:
		g := got.(*commands.VersionResponse)
		if errText(w.Err) != errText(g.Err) {
			return "err", 0
		}
		if w.ServerVersion != g.ServerVersion {
			return "ServerVersion", 0
		}
		if w.UserId != g.UserId {
			return "UserId", 0
		}
	case *commands.SetOptionsResponse:
		g := got.(*commands.SetOptionsResponse)
		if errText(w.Err) != errText(g.Err) {
			return "err", 0
		}
	case *commands.ErrorResponse:
		g := got.(*commands.ErrorResponse)
		if errText(w.Err) != errText(g.Err) {
			return "err", 0
		}
	case *commands.PacketResponse:
		g := got.(*commands.PacketResponse)
		if errText(w.Err) != errText(g.Err) {
			return "err", 0
		}
		if w.Err != nil {
			return "", 0
		}
		if w.LastAckedSeqNo != g.LastAckedSeqNo {
			return "LastAckedSeqNo", 0
		}
		if (w.Packet == nil) != (g.Packet == nil) {
			return "packet-presence", 0
		}
		if w.Packet != nil {
			if w.Packet.SeqNo != g.Packet.SeqNo {
				return "SeqNo", 0
			}
			return data(w.Packet.Data, g.Packet.Data), cmpBytes
		}
	case *commands.TestDownstreamEncoderResponse:
		g := got.(*commands.TestDownstreamEncoderResponse)
		if errText(w.Err) != errText(g.Err) {
			return "err", 0
		}
		if w.Err != nil {
			return "", 0
		}
		return data(w.Data, g.Data), cmpBytes
	case *commands.TestDownstreamFragmentSizeResponse:
		g := got.(*commands.TestDownstreamFragmentSizeResponse)
		if errText(w.Err) != errText(g.Err) {
			return "err", 0
		}
		if w.Err != nil {
			return "", 0
		}
		if w.FragmentSize != g.FragmentSize {
			return "FragmentSize", 0
		}
		return data(w.Data, g.Data), cmpBytes
	case *commands.TestUpstreamEncoderResponse:
		g := got.(*commands.TestUpstreamEncoderResponse)
		if errText(w.Err) != errText(g.Err) {
			return "err", 0
		}
		if w.Err != nil {
			return "", 0
		}
		return data(w.Data, g.Data), cmpBytes
	default:
		return "unknown-type", 0
	}
	return "", cmpBytes
}

// ---- diagnosis used for the signature only (never for the verdict) ----------------------------

// needsEscape says whether the DNS presentation format, which miekg/dns uses for domain names and
// TXT strings in memory, treats b specially (on Pack: '\' starts an escape, '.' ends a label; on
// Unpack: the byte comes back as \c or \DDD).
func needsEscape(qt string, b byte) bool {
	switch qt {
	case "TXT":
		return b == '\\' || b == '"' || b < ' ' || b > '~'
	case "CNAME", "MX", "SRV":
		switch b {
		case '.', '\\', '"', '\'', '(', ')', ';', '@', ' ':
			return true
		}
		return b < ' ' || b > '~'
	}
	return false
}

func clip(b []byte) string {
	if len(b) > 160 {
		return hex.EncodeToString(b[:160]) + fmt.Sprintf("...(%d bytes)", len(b))
	}
	return hex.EncodeToString(b)
}

func describe(r commands.Response) string {
	switch v := r.(type) {
	case nil:
		return "<nil>"
	case *commands.VersionResponse:
		return fmt.Sprintf("Version{ver=%#x user=%d err=%s}", v.ServerVersion, v.UserId, errText(v.Err))
	case *commands.SetOptionsResponse:
		return fmt.Sprintf("SetOptions{err=%s}", errText(v.Err))
	case *commands.ErrorResponse:
		return fmt.Sprintf("Error{err=%s}", errText(v.Err))
	case *commands.PacketResponse:
		if v.Packet != nil {
			return fmt.Sprintf("Packet{err=%s ack=%d seq=%d data[%d]=%s}", errText(v.Err), v.LastAckedSeqNo, v.Packet.SeqNo, len(v.Packet.Data), clip(v.Packet.Data))
		}
		return fmt.Sprintf("Packet{err=%s ack=%d no-packet}", errText(v.Err), v.LastAckedSeqNo)
	case *commands.TestDownstreamEncoderResponse:
		return fmt.Sprintf("DownEnc{err=%s data[%d]=%s}", errText(v.Err), len(v.Data), clip(v.Data))
	case *commands.TestDownstreamFragmentSizeResponse:
		return fmt.Sprintf("FragSize{err=%s frag=%d data[%d]=%s}", errText(v.Err), v.FragmentSize, len(v.Data), clip(v.Data))
	case *commands.TestUpstreamEncoderResponse:
		return fmt.Sprintf("UpEnc{err=%s data[%d]=%s}", errText(v.Err), len(v.Data), clip(v.Data))
	}
	return fmt.Sprintf("%T", r)
}

// ---- one case --------------------------------------------------------------------------------

func caseKey(d caseDesc) string {
	key := fmt.Sprintf("%s|%s|%s|%s|%s|%s|%d|%d|%d|%d|%s|%d|%d", d.Resp, d.Err, d.Qtype, d.Codec, d.Domain, d.QStyle, d.Ver, d.User, d.Ack, d.Seq, d.Gen, d.Len, d.Key)
	if d.Query != "" {
		key += fmt.Sprintf("|q=%s|edns0=%v|up=%d", d.Query, d.Edns0, d.UpLen)
	}
	return key
}

func findQtype(name string) *qtype {
	for i := range qtypes {
		if qtypes[i].name == name {
			return &qtypes[i]
		}
	}
	return nil
}

// formQuery makes the query a response answers. It is the harness's own precondition: an error here
// says nothing about the property.
func formQuery(d caseDesc, q *qtype) (*dns.Msg, error) {
	if d.Query == "" {
		req := new(dns.Msg)
		req.SetQuestion(questionName(d.QStyle, d.Domain), uint16(q.t))
		req.Id = uint16(7727 + d.Len)
		return req, nil
	}
	if d.Query != "client" {
		return nil, fmt.Errorf("unknown query style %q", d.Query)
	}
	// what the client does: Serializer.EncodeDnsRequestWithParams (UseEdns0 adds the OPT record), Pack; and what
	// the server is handed by its DNS library: the unpacked message
	cli := commands.Serializer{Domain: d.Domain, UseEdns0: d.Edns0, Upstream: util.UpstreamConfig{Encoder: enc.Base32Encoding}}
	var lastErr error
	for n := d.UpLen; ; n /= 2 { // a long tunnel domain leaves room for a few bytes only: shrink until the name fits
		up := make([]byte, n)
		vcommon.FillKeyed(d.Key^0x5151, 0, up)
		r := &commands.PacketRequest{UserId: d.User % 1296, LastAckedSeqNo: d.Seq, Packet: &util.Packet{SeqNo: d.Ack, Data: up}}
		m, err := cli.EncodeDnsRequestWithParams(r, q.t, enc.Base32Encoding)
		if err == nil {
			m.Id = uint16(7727 + d.Len)
			var qb []byte
			if qb, err = m.Pack(); err == nil {
				recv := new(dns.Msg)
				if err = recv.Unpack(qb); err == nil {
					return recv, nil
				}
			}
		}
		lastErr = err
		if n == 0 {
			return nil, lastErr
		}
	}
}

type harness struct {
	rec    *vcommon.Rec
	codecs map[byte]enc.Encoder
	keep   retainer
}

// retainer: what a client received stays what it received. A response that was decoded and found identical is
// kept for the next keepFor answers the same client decodes and compared again after each of them: the
// application reads a payload after the tunnel has gone on to the next answer (the oracle is the same comparison
// as before, made at a later moment).
const keepFor = 3

type kept struct {
	d         caseDesc
	want, got commands.Response
	cell      string
	then      []caseDesc
}

type retainer struct {
	held []kept
}

// later is called after every answer a client has put through the decoder (whatever the outcome was);
// group is set when the client is one of several running at the same time.
func (r *retainer) later(rec *vcommon.Rec, d caseDesc, group *groupDesc) {
	d.Then, d.Group, d.PayloadHex = nil, nil, ""
	out := r.held[:0]
	for _, k := range r.held {
		k.then = append(k.then, d)
		rec.Stat("kept_responses_compared_again", 1)
		if diff, _ := same(k.want, k.got); diff != "" {
			sig := k.cell + ":silent-diff:changed-after-later-decode"
			desc := k.d
			desc.Then = k.then
			if group != nil {
				desc.Group = group
			}
			rec.Violation(sig, desc, map[string]interface{}{
				"sent": describe(k.want), "differs_in": diff, "client_holds_now": describe(k.got),
				"answers_decoded_since": len(k.then),
			})
			continue
		}
		if len(k.then) < keepFor {
			out = append(out, k)
		}
	}
	r.held = out
}

func (r *retainer) hold(d caseDesc, want, got commands.Response, cell string) {
	d.Then, d.Group = nil, nil
	r.held = append(r.held, kept{d: d, want: want, got: got, cell: cell})
}

func (h *harness) run(d caseDesc) (outcome string) {
	rec := h.rec
	q := findQtype(d.Qtype)
	k := kindByName(d.Resp)
	codec := h.codecs[d.Codec[0]]
	if q == nil || k == nil || codec == nil {
		panic(fmt.Sprintf("bad case descriptor %+v", d))
	}
	d.CodecName = codec.Name()
	want := build(d)
	key := caseKey(d)

	// server and client each have their own serializer, as in the real system
	srv := commands.Serializer{Domain: d.Domain, Downstream: util.DownstreamConfig{Encoder: codec, FragmentSize: 1534}}
	cli := commands.Serializer{Domain: d.Domain, Downstream: util.DownstreamConfig{Encoder: codec, FragmentSize: 1534}}

	req, qerr := formQuery(d, q)
	if qerr != nil {
		rec.Inconclusive("the harness could not form the query: "+qerr.Error(), d)
		return "no query: " + qerr.Error()
	}
	if req.IsEdns0() != nil {
		rec.Stat("queries_with_opt_record", 1)
	}

	stage := "encode"
	var msg, m2 *dns.Msg
	var wire []byte
	var got commands.Response
	var err error
	panicked, site, pval := vcommon.Guard(func() {
		msg, err = srv.EncodeDnsResponseWithParams(want, req, q.t, codec)
		if err != nil {
			return
		}
		stage = "pack"
		wire, err = msg.Pack()
		if err != nil {
			return
		}
		if len(wire) > dns.MaxMsgSize {
			// no DNS transport carries this (dns.Conn.Write refuses it, a datagram cannot hold it):
			// the failure is reported to the server, nothing reaches the client
			stage = "size"
			err = fmt.Errorf("packed message of %d bytes exceeds the 65535 byte limit of DNS", len(wire))
			return
		}
		stage = "unpack"
		m2 = new(dns.Msg)
		if err = m2.Unpack(wire); err != nil {
			return
		}
		stage = "decode"
		got, err = cli.DecodeDnsResponseWithParams(m2, codec)
		if err != nil {
			return
		}
		stage = "compare"
	})

	effCodec := "Base32fixed"
	if k.usesCodec {
		effCodec = codec.Name()
	}
	cell := d.Qtype + ":" + effCodec + ":" + k.family
	mkdesc := func() caseDesc {
		if k.payload {
			p := payloadOf(d)
			if len(p) > 64 {
				p = p[:64]
			}
			d.PayloadHex = hex.EncodeToString(p)
		}
		return d
	}
	observed := func(extra map[string]interface{}) map[string]interface{} {
		o := map[string]interface{}{"stage": stage, "sent": describe(want)}
		if msg != nil {
			o["answer_records"] = len(msg.Answer)
		}
		if wire != nil {
			o["wire_bytes"] = len(wire)
		}
		for a, b := range extra {
			o[a] = b
		}
		return o
	}

	rec.Seen("qtype x codec x response", d.Qtype+"/"+codec.Name()+"/"+d.Resp)
	if msg != nil {
		needle := "." + d.Domain + "."
		for _, rr := range msg.Answer {
			name := ""
			switch v := rr.(type) {
			case *dns.MX:
				name = v.Mx
			case *dns.SRV:
				name = v.Target
			case *dns.CNAME:
				name = v.Target
			}
			if name != "" && strings.Index(name, needle) != strings.LastIndex(name, needle) {
				rec.Stat("answers_with_the_domain_text_among_the_payload_labels", 1)
				rec.Stat("answers_with_the_domain_text_among_the_payload_labels:"+d.Qtype, 1)
				rec.Seen("domains_seen_among_payload_labels", d.Domain)
				break
			}
		}
	}
	if d.Query != "" {
		rec.Seen("client-formed query: qtype x edns0 x outcome stage", fmt.Sprintf("%s/%v/%s", d.Qtype, d.Edns0, stage))
	}
	if stage == "decode" || stage == "compare" {
		// the client has decoded another answer: what it received before must still be what it received
		h.keep.later(rec, d, nil)
	}

	if panicked {
		rec.Case(key, true)
		rec.Stat("panics", 1)
		rec.Stat("panic:"+d.Qtype, 1)
		sig := fmt.Sprintf("%s:panic@%s:stage=%s", d.Qtype, site, stage)
		if strings.Contains(effCodec, "Base192") {
			sig = fmt.Sprintf("%s:Base192:panic@%s:stage=%s", d.Qtype, site, stage)
		}
		rec.Violation(sig, mkdesc(), observed(map[string]interface{}{"panic": pval}))
		return "VIOLATION " + sig + ": " + pval
	}
	if err != nil {
		// a failure reported at some stage: allowed by the statement
		rec.Case(key, false)
		rec.Stat("reported_failure:"+stage, 1)
		rec.Stat("reported_failure:"+d.Qtype, 1)
		rec.Seen("reported_failure:"+stage, cell)
		return fmt.Sprintf("reported failure at stage %s (%d answer records): %v", stage, nAnswers(msg), err)
	}
	diff, n := same(want, got)
	rec.Case(key, true)
	if diff == "" {
		rec.Stat("ok_identical", 1)
		rec.Stat("ok_identical:"+d.Qtype, 1)
		rec.Stat("payload_bytes_compared_equal", int64(n))
		rec.StatMax("identical_payload_len:"+d.Qtype, int64(d.Len))
		rec.Seen("ok_identical_cells", cell)
		if d.Query != "" {
			rec.Stat(fmt.Sprintf("ok_identical:client-query:edns0=%v", d.Edns0), 1)
			rec.StatMax(fmt.Sprintf("identical_wire_bytes:client-query:edns0=%v:%s", d.Edns0, d.Qtype), int64(len(wire)))
		}
		h.keep.hold(d, want, got, cell)
		if len(msg.Answer) > 1 {
			rec.Stat("ok_identical_multi_record", 1)
			rec.StatMax("answer_records_ok:"+d.Qtype, int64(len(msg.Answer)))
			// Resolvers rotate and shuffle the records of an answer (round robin): that is what the order
			// tags are for. The same answer with its records in another order must decode to the same
			// response (or fail in a reported way), never to a silently different one.
			for _, mode := range []string{"rotate", "reverse", "shuffle"} {
				m3 := m2.Copy()
				a := m3.Answer
				switch mode {
				case "rotate":
					a = append(append([]dns.RR{}, a[1:]...), a[0])
				case "reverse":
					for i, j := 0, len(a)-1; i < j; i, j = i+1, j-1 {
						a[i], a[j] = a[j], a[i]
					}
				case "shuffle":
					r := rand.New(rand.NewSource(int64(d.Key)*31 + int64(d.Len)))
					r.Shuffle(len(a), func(i, j int) { a[i], a[j] = a[j], a[i] })
				}
				m3.Answer = a
				var got2 commands.Response
				var err2 error
				p2, site2, pval2 := vcommon.Guard(func() { got2, err2 = cli.DecodeDnsResponseWithParams(m3, codec) })
				rec.Stat("reordered_answers_decoded", 1)
				if p2 {
					sig := fmt.Sprintf("%s:panic@%s:stage=decode:answer-section-reordered", d.Qtype, site2)
					rec.Violation(sig, mkdesc(), observed(map[string]interface{}{"panic": pval2, "order": mode}))
					return "VIOLATION " + sig
				}
				if err2 != nil {
					rec.Stat("reordered_answers_reported_failure", 1)
					continue
				}
				if diff2, _ := same(want, got2); diff2 != "" {
					sig := fmt.Sprintf("%s:silent-diff:layer=records:answer-section-reordered", cell)
					rec.Violation(sig, mkdesc(), observed(map[string]interface{}{"differs_in": diff2, "decoded": describe(got2), "order": mode}))
					return "VIOLATION " + sig
				}
			}
		}
		return fmt.Sprintf("identical (%d answer records, %d wire bytes): %s", len(msg.Answer), len(wire), describe(got))
	}

	// ---- violation: the client decoded, without any error, something the server did not send ----
	rec.Stat("silent_diff", 1)
	rec.Stat("silent_diff:"+d.Qtype, 1)
	// diagnosis for the signature: did the bytes handed to the record layer come back unchanged?
	var sentBytes, backBytes []byte
	layer := "?"
	vcommon.Guard(func() {
		sentBytes, _ = want.Encode(codec)
		backBytes = util.UnwrapDnsResponse(m2, d.Domain)
	})
	cause := ""
	if sentBytes != nil && backBytes != nil {
		if bytes.Equal(sentBytes, backBytes) {
			layer = "codec" // records carried the bytes faithfully; Decode(Encode(x)) != x
		} else {
			layer = "records"
			esc := false
			for _, b := range sentBytes {
				if needsEscape(d.Qtype, b) {
					esc = true
					break
				}
			}
			switch {
			case esc:
				cause = ":escaped-bytes"
			case len(msg.Answer) > 1:
				cause = ":plain-bytes:multi-record"
			default:
				cause = ":plain-bytes:single-record"
			}
		}
	}
	if m2 != nil && m2.Truncated {
		// diagnosis only: the reply that reached the client says (TC bit) that the server cut it short
		cause += ":reply-marked-truncated"
	}
	sig := fmt.Sprintf("%s:silent-diff:layer=%s%s", cell, layer, cause)
	rec.Violation(sig, mkdesc(), observed(map[string]interface{}{
		"differs_in": diff, "decoded": describe(got), "tc_bit": m2 != nil && m2.Truncated, "records_received": nAnswers(m2),
		"record_layer_in": clip(sentBytes), "record_layer_out": clip(backBytes),
	}))
	return "VIOLATION " + sig + ": differs in " + diff
}

func nAnswers(m *dns.Msg) int {
	if m == nil {
		return 0
	}
	return len(m.Answer)
}

// ---- workload ----------------------------------------------------------------------------------

func lengths(rec *vcommon.Rec, big bool) []int {
	var ls []int
	add := func(a, b int) {
		for l := a; l <= b; l++ {
			ls = append(ls, l)
		}
	}
	add(0, 800) // every length: covers the capacity limit of A answers (255 records x 3 bytes) under every codec
	add(1000, 1030)
	add(4090, 4100)
	add(8180, 8192)
	if big {
		add(65520, 65540)
	}
	return ls
}

// sweepLengths: every length up to 64, one seeded length in every block of the given size up to 8192, the
// lengths next to 8192 (and next to the 65530-byte record limit for NULL/PRIVATE).
func sweepLengths(rng *rand.Rand, block int, big bool) []int {
	var ls []int
	for l := 0; l <= 64; l++ {
		ls = append(ls, l)
	}
	for b := 65; b < 8180; b += block {
		n := block
		if b+n > 8180 {
			n = 8180 - b
		}
		ls = append(ls, b+rng.Intn(n))
	}
	for l := 8180; l <= 8192; l++ {
		ls = append(ls, l)
	}
	if big {
		ls = append(ls, 65500, 65529, 65530, 65531)
	}
	return ls
}

var contentGens = []string{"zero", "ff", "dot", "bslash", "quote", "space", "ctl", "special", "counter", "digits"}

var seqVals = []uint16{0, 1, 255, 256, 32767, 65535}

func TestVerifC10(t *testing.T) {
	logrus.SetLevel(logrus.PanicLevel)
	logrus.SetOutput(io.Discard)
	rec := vcommon.Open()
	defer rec.Close()

	h := &harness{rec: rec, codecs: map[byte]enc.Encoder{}}
	for _, c := range codecCodes {
		e, err := enc.FromCode(c)
		if err != nil {
			t.Fatalf("FromCode(%c): %v", c, err)
		}
		h.codecs[c] = e
	}

	if rec.Replay != nil {
		var d caseDesc
		if err := json.Unmarshal(rec.Replay, &d); err != nil {
			t.Fatal(err)
		}
		d.PayloadHex = ""
		var out string
		if d.Group != nil {
			// the whole group the case was seen in (an interleaving: several runs may be needed)
			out = h.runGroup(*d.Group)
		} else {
			out = h.run(d)
			for _, later := range d.Then {
				// the answers the client decoded before it looked at the first one again
				out += " | then: " + h.run(later)
			}
			if n := rec.ViolationCount(); n > 0 {
				out += fmt.Sprintf(" | %d violation(s) recorded", n)
			}
		}
		rec.Note("replay outcome", out)
		t.Logf("replay outcome: %s", out)
		return
	}

	errTexts := []string{}
	for _, e := range commands.BadErrors {
		errTexts = append(errTexts, e.Error())
	}

	// work items: (record type, codec, family); sharded by item index
	fams := []string{"fields", "packet", "frag", "upenc"}
	type item struct {
		q   qtype
		c   byte
		fam string
	}
	var items []item
	for _, q := range qtypes {
		for _, c := range codecCodes {
			for _, f := range fams {
				items = append(items, item{q, c, f})
			}
		}
	}
	// added after the items above so that those keep their index (shard, random stream, rotation):
	// responses to queries the client formed itself (with and without the OPT record), and groups of clients
	for _, q := range qtypes {
		for _, c := range codecCodes {
			items = append(items, item{q, c, "cliq"})
		}
	}
	firstGroup := len(items)
	for g := 0; g < rec.Pick(8, 16); g++ {
		items = append(items, item{qtypes[0], codecCodes[0], "group"})
	}
	for _, q := range qtypes {
		for _, c := range codecCodes {
			items = append(items, item{q, c, "domrep"})
		}
	}
	thorough := rec.Thorough()
	sampled := false
	for idx, it := range items {
		if !rec.Mine(idx) {
			continue
		}
		if it.fam == "group" {
			g := groupDesc{Seed: rec.Seed(), Index: idx - firstGroup, Lanes: 16, PerLane: rec.Pick(80, 200), Passes: rec.Pick(2, 4), Procs: 4}
			rec.Mark(map[string]interface{}{"family": "group", "group": g})
			h.runGroup(g)
			rec.Seen("work_items", fmt.Sprintf("group/%d", g.Index))
			continue
		}
		cname := h.codecs[it.c].Name()
		rec.Mark(map[string]string{"qtype": it.q.name, "codec": cname, "family": it.fam})
		rng := vcommon.NewRand(rec.Seed(), fmt.Sprintf("c10/%s/%s/%s", it.q.name, cname, it.fam))
		base := caseDesc{Qtype: it.q.name, Codec: string(it.c)}
		rot := idx // rotates domains / question styles so that every cell sees all of them
		next := func() (string, string) {
			rot++
			return domains[rot%len(domains)], qstyles[(rot/len(domains))%len(qstyles)]
		}
		randSeq := func() uint16 { return uint16(rng.Intn(65536)) }

		switch it.fam {
		case "fields":
			// --- responses without a payload: every error, field values, every domain
			for _, kn := range []string{"Version+err", "SetOptions+err", "Packet+err", "DownEnc+err", "FragSize+err", "UpEnc+err", "Error"} {
				ets := errTexts
				if kn == "Packet+err" {
					ets = append(append([]string{}, errTexts...), customErr)
				}
				for _, et := range ets {
					reps := rec.Pick(2, len(domains)*len(qstyles))
					for r := 0; r < reps; r++ {
						d := base
						d.Resp, d.Err = kn, et
						d.Domain, d.QStyle = next()
						if kn == "Version+err" {
							d.Ver = []uint32{0, 0x00000502, 0xffffffff, rng.Uint32()}[(rot+r)%4]
						}
						h.run(d)
					}
				}
			}
			// Version: user ids (the server's table has 36*36 slots) x server versions
			users := []uint16{0, 1, 9, 10, 35, 36, 37, 255, 256, 1000, 1294, 1295}
			if thorough {
				users = users[:0]
				for u := 0; u < 1296; u++ {
					users = append(users, uint16(u))
				}
			} else {
				for i := 0; i < 12; i++ {
					users = append(users, uint16(rng.Intn(1296)))
				}
			}
			for _, u := range users {
				for _, v := range []uint32{0x00000502, 0, 0xffffffff, 0x80000000, rng.Uint32()} {
					d := base
					d.Resp, d.User, d.Ver = "Version", u, v
					d.Domain, d.QStyle = next()
					h.run(d)
				}
			}
			// SetOptions ok, DownEnc with the server's check string: every domain x question style
			for _, dom := range domains {
				for _, qs := range qstyles {
					for _, kn := range []string{"SetOptions", "DownEnc"} {
						d := base
						d.Resp, d.Domain, d.QStyle = kn, dom, qs
						if kn == "DownEnc" {
							d.Gen, d.Len = "codeccheck", len(util.DownloadCodecCheck)
						}
						h.run(d)
					}
				}
			}
			// Packet without data: acknowledgement values
			acks := append([]uint16{}, seqVals...)
			for i := 0; i < rec.Pick(30, 2000); i++ {
				acks = append(acks, randSeq())
			}
			if thorough {
				for a := 0; a < 65536; a += 257 {
					acks = append(acks, uint16(a), uint16(a>>8|a<<8))
				}
			}
			for _, a := range acks {
				d := base
				d.Resp, d.Ack = "Packet/none", a
				d.Domain, d.QStyle = next()
				h.run(d)
			}
			// Packet with a small payload: seq x ack matrix
			for _, a := range seqVals {
				for _, s := range seqVals {
					d := base
					d.Resp, d.Ack, d.Seq = "Packet/data", a, s
					d.Gen, d.Len, d.Key = "keyed", 5+int(a%7), uint64(a)<<16|uint64(s)
					d.Domain, d.QStyle = next()
					h.run(d)
				}
			}
		case "packet":
			// --- data packets: every length x content classes
			for li, l := range lengths(rec, it.q.big) {
				var gens []string
				if thorough {
					gens = append([]string{"keyed", "keyed", "random", "random", "random"}, contentGens...)
				} else {
					gens = []string{"keyed", "random", "random", contentGens[li%len(contentGens)], contentGens[(li/len(contentGens)+li+5)%len(contentGens)]}
					if l <= 64 {
						gens = append(gens, "random", "random", contentGens[(li+3)%len(contentGens)], contentGens[(li+7)%len(contentGens)])
					}
				}
				for gi, g := range gens {
					ndom := 1
					if thorough && l <= 300 {
						ndom = len(domains)
					} else if thorough && l <= 1030 {
						ndom = 4
					}
					for r := 0; r < ndom; r++ {
						d := base
						d.Resp, d.Gen, d.Len = "Packet/data", g, l
						switch g {
						case "keyed":
							d.Key = uint64(l)*31 + uint64(gi) + 1 // not seed dependent
						case "random":
							d.Key = rng.Uint64()
						default:
							d.Key = uint64(li + gi)
						}
						d.Domain, d.QStyle = next()
						if (li+gi+r)%3 == 0 {
							d.Ack, d.Seq = seqVals[(li+r)%len(seqVals)], seqVals[(li/6+gi)%len(seqVals)]
						} else {
							d.Ack, d.Seq = randSeq(), randSeq()
						}
						if !sampled && l == 77 {
							sampled = true
							d2 := d
							d2.CodecName = cname
							rec.Sample(d2)
						}
						h.run(d)
					}
				}
			}
		case "frag":
			// --- fragment-size probe answers: the server's pattern, FragmentSize = length
			for _, l := range lengths(rec, it.q.big) {
				ndom := 1
				if thorough {
					ndom = len(domains)
				}
				for r := 0; r < ndom; r++ {
					d := base
					d.Resp, d.Gen, d.Len = "FragSize", "frag107", l
					d.Domain, d.QStyle = next()
					h.run(d)
				}
			}
		case "cliq":
			// --- answers to queries the client formed itself (Serializer.EncodeDnsRequestWithParams, over the wire),
			// with the OPT record of a negotiated EDNS0 and without it: lengths over the whole range 0..8192 (every
			// 32-byte block), so that answers of every size class (one record .. hundreds of records, a few bytes ..
			// tens of kilobytes on the wire) are formed for both kinds of query and every tunnel domain
			for li, l := range sweepLengths(rng, rec.Pick(64, 32), it.q.big) {
				dom := domains[(idx+li)%len(domains)]
				up, user := rng.Intn(150), uint16(rng.Intn(1296))
				a, sq, key := randSeq(), randSeq(), rng.Uint64()
				for _, ed := range []bool{true, false} {
					d := base
					d.Query, d.Edns0, d.UpLen, d.User = "client", ed, up, user
					d.Domain, d.Len = dom, l
					switch li % 6 {
					case 0:
						d.Resp, d.Gen = "FragSize", "frag107"
					case 1:
						d.Resp, d.Gen, d.Key = "Packet/data", contentGens[(li/6)%len(contentGens)], uint64(li)
					default:
						d.Resp, d.Gen, d.Key = "Packet/data", "random", key
					}
					if d.Resp == "Packet/data" {
						d.Ack, d.Seq = a, sq
					}
					h.run(d)
				}
			}
			// responses without a payload, and the codec probe
			for i, kn := range []string{"Version", "SetOptions", "Packet/none", "DownEnc", "Error", "Packet+err", "UpEnc"} {
				for _, dom := range domains {
					for _, ed := range []bool{true, false} {
						d := base
						d.Query, d.Edns0, d.UpLen, d.Domain, d.Resp = "client", ed, (i*37+len(dom))%150, dom, kn
						switch kn {
						case "Version":
							d.Ver, d.User = rng.Uint32(), uint16(rng.Intn(1296))
						case "Packet/none":
							d.Ack = randSeq()
						case "DownEnc":
							d.Gen, d.Len = "codeccheck", len(util.DownloadCodecCheck)
						case "UpEnc":
							d.Gen, d.Len, d.Key = "random", 1+rng.Intn(200), rng.Uint64()
						case "Error", "Packet+err":
							d.Err = errTexts[rng.Intn(len(errTexts))]
						}
						h.run(d)
					}
				}
			}
		case "domrep":
			// --- tunnel domains that can occur again inside the encoded payload (single label, one or two characters,
			// periodic): every length whose answer has one to several records, seeded random payloads (a one-character
			// domain is met by chance) and payloads steered to end in the domain's first label ("domtail")
			hostName := it.q.name == "MX" || it.q.name == "SRV" || it.q.name == "CNAME"
			maxLen := rec.Pick(160, 420)
			if !hostName {
				maxLen = rec.Pick(40, 80) // the domain is not part of these records; keep a sample
			}
			for l := 0; l <= maxLen; l++ {
				for di, dom := range shortDomains {
					gens := []string{"random", "domtail"}
					if len(dom) == 1 && hostName {
						gens = append(gens, "random", "random", "random")
					}
					for gi, g := range gens {
						d := base
						d.Domain, d.QStyle = dom, qstyles[(l+di+gi)%len(qstyles)]
						d.Resp, d.Gen, d.Len, d.Key = "Packet/data", g, l, rng.Uint64()
						d.Ack, d.Seq = randSeq(), randSeq()
						if (l+di)%4 == 0 && gi < 2 && l <= 250 {
							// the upstream-codec echo (always Base32)
							d.Resp, d.Ack, d.Seq = "UpEnc", 0, 0
						}
						if (l+di)%7 == 3 {
							d.Query, d.Edns0, d.UpLen, d.QStyle = "client", l%2 == 0, rng.Intn(150), ""
						}
						h.run(d)
					}
					if l%3 == 0 {
						d := base
						d.Domain, d.QStyle = dom, qstyles[(l+di)%len(qstyles)]
						d.Resp, d.Gen, d.Len = "FragSize", "frag107", l
						h.run(d)
					}
				}
			}
			// responses without a payload, every error, and the codec probe under these domains
			for _, dom := range shortDomains {
				for qi, qs := range qstyles {
					for _, kn := range []string{"Version", "SetOptions", "Packet/none", "DownEnc"} {
						d := base
						d.Domain, d.QStyle, d.Resp = dom, qs, kn
						switch kn {
						case "Version":
							d.Ver, d.User = rng.Uint32(), uint16(rng.Intn(1296))
						case "Packet/none":
							d.Ack = randSeq()
						case "DownEnc":
							d.Gen, d.Len = "codeccheck", len(util.DownloadCodecCheck)
						}
						h.run(d)
					}
					for ei, et := range errTexts {
						d := base
						d.Domain, d.QStyle, d.Err = dom, qs, et
						d.Resp = []string{"Error", "Packet+err", "Version+err", "SetOptions+err", "DownEnc+err", "FragSize+err", "UpEnc+err"}[(ei+qi)%7]
						h.run(d)
					}
				}
			}
		case "upenc":
			// --- upstream-codec echo: the pattern arrived in a host name, so at most ~250 bytes
			for l := 0; l <= 250; l++ {
				gens := []string{"random", contentGens[l%len(contentGens)]}
				if thorough {
					gens = append([]string{"keyed", "random", "random"}, contentGens...)
				}
				for gi, g := range gens {
					d := base
					d.Resp, d.Gen, d.Len = "UpEnc", g, l
					if g == "random" {
						d.Key = rng.Uint64()
					} else {
						d.Key = uint64(l*7 + gi)
					}
					d.Domain, d.QStyle = next()
					h.run(d)
				}
			}
		}
		rec.Seen("work_items", it.q.name+"/"+cname+"/"+it.fam)
	}
	for _, dm := range domains {
		rec.Seen("domain_lengths", fmt.Sprint(len(dm)))
	}
}
