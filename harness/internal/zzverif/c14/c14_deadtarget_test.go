// C14, logical connections whose TARGET cannot be reached: the channel is offered by the server and the negotiation
// succeeds, but the server's dial to the target fails (refused TCP port, missing unix socket, a target that is down
// for a while). Such a logical connection is over the moment the dial has failed: it must be ended towards the
// application, and nothing may be kept for it on either side.
package c14

import (
	"encoding/binary"
	"fmt"
	"math/rand"
	"net"
	"strings"
	"sync"
	"time"

	"github.com/bokysan/socketace/v2/internal/zzverif/e2e"
	"github.com/bokysan/socketace/v2/internal/zzverif/vcommon"
)

// deadFixture is a running pair with an ordinary channel "echo" and a channel "dead" whose target is unreachable
// (for ever, or while the harness keeps it down).
type deadFixture struct {
	p       *e2e.Pair
	refuser *e2e.C14Refuser
	flapURL string      // flapping-target: the address of the target of channel "dead"
	flapTgt *e2e.Target // the target while it is up
}

func (d *deadFixture) Close() {
	if d.p != nil {
		d.p.Close()
	}
	if d.flapTgt != nil {
		d.flapTgt.Close()
	}
	if d.refuser != nil {
		d.refuser.Close()
	}
}

func startDead(sc *scenario) (*deadFixture, error) {
	d := &deadFixture{}
	chans := []e2e.ChanSpec{{Name: "echo"}}
	switch sc.Mode {
	case "dead-target-tcp":
		r, err := e2e.NewC14Refuser()
		if err != nil {
			return nil, fmt.Errorf("fixture: %v", err)
		}
		d.refuser = r
		chans = append(chans, e2e.ChanSpec{Name: "dead", Custom: e2e.C14Channel("dead", r.URL())})
	case "dead-target-unix":
		// a socket name in the child's private directory at which nothing was ever created
		chans = append(chans, e2e.ChanSpec{Name: "dead", Custom: e2e.C14Channel("dead", "unix://c14-no-such-target.sock")})
	case "flapping-target":
		d.flapURL = "c14-flapping-target.sock"
		chans = append(chans, e2e.ChanSpec{Name: "dead", Custom: e2e.C14Channel("dead", "unix://"+d.flapURL)})
	default:
		return nil, fmt.Errorf("unknown mode %q", sc.Mode)
	}
	p, err := e2e.Start(e2e.Options{Carrier: sc.Carrier, Channels: chans})
	if err != nil {
		d.Close()
		return nil, err
	}
	d.p = p
	return d, nil
}

func (d *deadFixture) targetUp() error {
	// tagged: an application that gave up at once while the target was away may reach the target only now (the
	// client and the server work on its connection after it has gone); such a connection says nothing and ends, and
	// must not be taken for the connection of the application that is served next
	t, err := e2e.NewTarget("dead", "unix", d.flapURL, true)
	if err != nil {
		return err
	}
	d.flapTgt = t
	return nil
}

func (d *deadFixture) targetDown() {
	if d.flapTgt != nil {
		d.flapTgt.Close() // the listener goes away and takes its socket name with it
		d.flapTgt = nil
	}
}

// untilEnd reads (and discards) until the connection has ended; the application does nothing else.
func untilEnd(c net.Conn) <-chan struct{} {
	return e2e.Go(func() {
		b := make([]byte, 512)
		for {
			if _, err := c.Read(b); err != nil {
				return
			}
		}
	})
}

type deadFailure struct {
	sig          string // signature fragment of a violation of C14 itself
	f            *e2e.Failure
	inconclusive bool
}

// deadConn makes one local connection for the channel whose target is unreachable. behaviour: "wait" (the application
// says nothing and waits for the answer or the end), "write-then-wait" (sends a request first), "close-first" (gives
// up at once). The connection must be ended by the tunnel: nothing but the system under test is left to act while
// the application waits.
func deadConn(d *deadFixture, behaviour string, request int) *deadFailure {
	c, err := d.p.Dial("dead")
	if err != nil {
		return &deadFailure{f: &e2e.Failure{Kind: "dial-failed", Info: map[string]interface{}{"err": err.Error()}}}
	}
	defer c.Close()
	switch behaviour {
	case "close-first":
		return nil
	case "write-then-wait":
		c.Write(make([]byte, request)) // may fail when the tunnel has already ended the connection: that is an end, too
	}
	switch e2e.Wait(untilEnd(c)) {
	case e2e.Stalled:
		return &deadFailure{sig: "connection-whose-target-cannot-be-reached-is-never-ended:application=" + behaviour,
			f: &e2e.Failure{Info: map[string]interface{}{"goroutines": e2e.Clip(e2e.Stacks(), 40000)}}}
	case e2e.Inconclusive:
		return &deadFailure{inconclusive: true, f: &e2e.Failure{Kind: "busy", Inconclusive: true}}
	}
	e2e.Bump(1)
	return nil
}

// heldGroup: k applications connect for the unreachable target, keep their sockets and do not read. The logical
// connections are over (the target could not be dialled), so no copy loop may be left for them although the
// applications still hold their sockets; afterwards every one of them must find its connection ended.
func heldGroup(d *deadFixture, k int) *deadFailure {
	var apps []net.Conn
	defer func() {
		for _, a := range apps {
			a.Close()
		}
	}()
	before := take(true)
	for i := 0; i < k; i++ {
		c, err := d.p.Dial("dead")
		if err != nil {
			return &deadFailure{f: &e2e.Failure{Kind: "dial-failed", Info: map[string]interface{}{"err": err.Error()}}}
		}
		apps = append(apps, c)
	}
	// the client has accepted a local connection when its pipe has started or the connection has been ended already;
	// the first is counted by the hook, and both are over at the quiescent point with no pipe outstanding
	pr, _ := quiesce(func(p probe) bool { return p.Pipes == 0 }, 30*time.Second)
	var f *deadFailure
	if pr.Pipes > 0 {
		f = &deadFailure{sig: "copy-loops-left-for-connections-whose-target-cannot-be-reached(applications-still-hold-their-sockets)",
			f: &e2e.Failure{Info: map[string]interface{}{"copy_loops_outstanding": pr.Pipes, "applications": k, "before": describe(before), "probe": describe(pr)}}}
	}
	for _, a := range apps {
		switch e2e.Wait(untilEnd(a)) {
		case e2e.Stalled:
			if f == nil {
				f = &deadFailure{sig: "connection-whose-target-cannot-be-reached-is-never-ended:application=held",
					f: &e2e.Failure{Info: map[string]interface{}{}}}
			}
			f.f.Info["an_application_that_then_waited_for_the_end_never_saw_it"] = true
			f.f.Info["goroutines"] = e2e.Clip(e2e.Stacks(), 40000)
			return f // one stall is enough
		case e2e.Inconclusive:
			if f == nil {
				f = &deadFailure{inconclusive: true, f: &e2e.Failure{Kind: "busy", Inconclusive: true}}
			}
			return f
		}
		e2e.Bump(1)
	}
	return f
}

// servedByFlap: one ordinary logical connection to the flapping target while it is up.
func servedByFlap(d *deadFixture, key uint64) *e2e.Failure {
	app, err := d.p.Dial("dead")
	if err != nil {
		return &e2e.Failure{Kind: "dial-failed", Info: map[string]interface{}{"err": err.Error()}}
	}
	defer app.Close()
	var hdr [8]byte
	binary.BigEndian.PutUint64(hdr[:], key)
	if _, err := app.Write(hdr[:]); err != nil {
		return &e2e.Failure{Kind: "write-failed", Info: map[string]interface{}{"err": err.Error()}}
	}
	tgt, o := d.flapTgt.NextTagged(key)
	if o != e2e.Done {
		return &e2e.Failure{Kind: "target-that-is-up-again-gets-no-connection", Inconclusive: o == e2e.Inconclusive, Info: map[string]interface{}{"goroutines": e2e.Clip(e2e.Stacks(), 40000)}}
	}
	defer tgt.Close()
	if f := e2e.Duplex(app, tgt, &e2e.Stream{Key: key*2 + 1, Len: 1500}, &e2e.Stream{Key: key*2 + 2, Len: 900}, "c2t", "t2c", nil); f != nil {
		return f
	}
	if key%2 == 0 {
		app.Close()
		return e2e.ExpectEOF(tgt, "c2t")
	}
	tgt.Close()
	return e2e.ExpectEOF(app, "t2c")
}

// runDeadTarget: growth over logical connections for an offered channel whose target cannot be reached.
func runDeadTarget(rec *vcommon.Rec, sc *scenario) {
	sig := "growth:" + sc.Carrier + ":" + sc.Mode
	d, err := startDead(sc)
	if err != nil {
		if strings.HasPrefix(err.Error(), "fixture:") {
			rec.Inconclusive(sig+":"+err.Error(), sc)
			return
		}
		rec.Violation(sig+":setup-failed", sc, err.Error())
		return
	}
	defer d.Close()
	rng := rand.New(rand.NewSource(sc.Seed))
	attempts, served := 0, 0
	fail := func(stage string, df *deadFailure) {
		if df.inconclusive || (df.f != nil && df.f.Inconclusive) {
			rec.Inconclusive(sig+":"+stage+":"+df.f.Kind, sc)
			return
		}
		rec.Case(fmt.Sprintf("%v", *sc), true)
		if df.sig != "" {
			rec.Violation(sig+":"+df.sig, sc, df.f.Info)
			return
		}
		rec.Violation(sig+":"+stage+":workload-failed:"+df.f.Kind, sc, df.f.Info)
	}
	// refused: connections [from,to) for the unreachable target, in seeded behaviours, with an ordinary connection on
	// the other channel now and then (the session stays in use and must stay usable)
	refused := func(from, to int) *deadFailure {
		if df := heldGroup(d, 4); df != nil {
			return df
		}
		attempts += 4
		for i := from; i < to; {
			switch r := rng.Intn(12); {
			case r == 0:
				if f := oneConn(d.p, sc.Seed*100000+int64(i), []string{"app", "target"}[i%2]); f != nil {
					return &deadFailure{f: f}
				}
				served++
				i++
			case r == 1:
				// eight applications at once
				w := 8
				if to-i < w {
					w = to - i
				}
				bs, ns := make([]string, w), make([]int, w)
				for j := range bs {
					bs[j] = []string{"wait", "write-then-wait", "close-first"}[rng.Intn(3)]
					ns[j] = 1 + rng.Intn(6000)
				}
				res := make([]*deadFailure, w)
				var wg sync.WaitGroup
				for j := 0; j < w; j++ {
					wg.Add(1)
					go func(j int) {
						defer wg.Done()
						res[j] = deadConn(d, bs[j], ns[j])
					}(j)
				}
				wg.Wait()
				for _, df := range res {
					if df != nil {
						if df.sig != "" {
							df.sig += "(8-at-once)"
						}
						return df
					}
				}
				attempts += w
				i += w
			default:
				b := "wait"
				if r >= 7 {
					b = "write-then-wait"
				}
				if r == 11 {
					b = "close-first"
				}
				if df := deadConn(d, b, 1+rng.Intn(6000)); df != nil {
					return df
				}
				attempts++
				i++
			}
		}
		return nil
	}
	batch := func(from, to int) *deadFailure {
		if sc.Mode != "flapping-target" {
			return refused(from, to)
		}
		// the target is up (connections are served), goes away (connections cannot be served), and comes back
		for phase := 0; phase < 2; phase++ {
			if err := d.targetUp(); err != nil {
				return &deadFailure{inconclusive: true, f: &e2e.Failure{Kind: "fixture: target cannot listen again: " + err.Error(), Inconclusive: true}}
			}
			for k := 0; k < 3; k++ {
				if f := servedByFlap(d, uint64(sc.Seed)*100000+uint64(from)*16+uint64(phase*3+k)); f != nil {
					return &deadFailure{f: f}
				}
				served++
			}
			d.targetDown()
			if phase == 0 {
				if df := refused(from, to); df != nil {
					return df
				}
			}
		}
		return nil
	}
	if df := batch(0, 8); df != nil {
		fail("warmup", df)
		return
	}
	if df := batch(8, 8+sc.N1); df != nil {
		fail("batch1", df)
		return
	}
	p1, q1 := quiesce(func(p probe) bool { return p.Pipes == 0 }, 30*time.Second)
	if df := batch(8+sc.N1, 8+sc.N2); df != nil {
		fail("batch2", df)
		return
	}
	p2, q2 := quiesce(func(p probe) bool { return p.Pipes == 0 }, 30*time.Second)
	rec.Case(fmt.Sprintf("%v", *sc), true)
	rec.Stat("logical_connections_finished", int64(attempts+served))
	rec.Stat("connections_for_an_unreachable_target_ended", int64(attempts))
	rec.Seen("scenario", sc.Kind+"/"+sc.Carrier+"/"+sc.Mode)
	rec.Sample(map[string]interface{}{"scenario": sc, "after_n1": describe(p1), "after_n2": describe(p2), "quiescent": []bool{q1, q2}})
	const slack = 4
	for c, n := range p2.G {
		if dd := n - p1.G[c]; dd > slack {
			rec.Violation(fmt.Sprintf("%s:goroutines-grow:%s", sig, c), sc, map[string]interface{}{"after_n1": describe(p1), "after_n2": describe(p2), "n1": sc.N1, "n2": sc.N2})
		}
	}
	if dd := p2.FDs - p1.FDs; dd > slack {
		rec.Violation(sig+":descriptors-grow", sc, map[string]interface{}{"after_n1": describe(p1), "after_n2": describe(p2), "n1": sc.N1, "n2": sc.N2})
	}
	if p2.Pipes-p1.Pipes > slack {
		rec.Violation(sig+":copy-loops-grow", sc, map[string]interface{}{"after_n1": describe(p1), "after_n2": describe(p2)})
	}
}
