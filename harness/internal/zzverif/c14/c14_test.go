// C14: resources are reclaimed when connections end (DESIGN.md §4 C14).
// One scenario per child process, so that footprints are clean.
package c14

import (
	"encoding/binary"
	"encoding/json"
	"fmt"
	"io"
	"math/rand"
	"net"
	"os"
	"runtime"
	"sort"
	"strconv"
	"strings"
	"sync"
	"sync/atomic"
	"testing"
	"time"

	"github.com/bokysan/socketace/v2/internal/verifhook"
	"github.com/bokysan/socketace/v2/internal/zzverif/e2e"
	"github.com/bokysan/socketace/v2/internal/zzverif/vcommon"
)

type scenario struct {
	Kind    string `json:"kind"` // "growth" | "end"
	Carrier string `json:"carrier"`
	Mode    string `json:"mode"` // growth: seq-app | seq-target | overlap | mixed ; end: client-shutdown | relay-fin | relay-rst | cut-server-side | cut-client-side | garbage-to-server | garbage-to-client | blackhole
	N1      int    `json:"n1"`
	N2      int    `json:"n2"`
	Seed    int64  `json:"seed"`
}

// ---- probes ----------------------------------------------------------------------------------

type probe struct {
	G     map[string]int // goroutines by class (harness and runtime goroutines excluded)
	FDs   int
	Pipes int64 // pipe.start - pipe.end
	AErr  int64 // server.accept.err
	Ticks int64 // process CPU time in USER_HZ ticks
}

var classes = []struct{ needle, class string }{
	{"smux.(*Session).recvLoop", "smux.recvLoop"},
	{"smux.(*Session).sendLoop", "smux.sendLoop"},
	{"smux.(*Session).keepalive", "smux.keepalive"},
	{"smux.(*Session).shaperLoop", "smux.shaperLoop"},
	{"streams.pipeData", "streams.pipeData"},
	{"streams.pipeDebugData", "streams.pipeData"},
	{"server.(*ConnectionHandler).acceptStream", "server.acceptStream"},
	{"server.(*ConnectionHandler).multiplexToUpstream", "server.multiplexToUpstream"},
	{"listener.(*AbstractListener).HandleConnection", "listener.HandleConnection"},
	{"server.AcceptConnection", "server.AcceptConnection"},
	{"kcp.(*UDPSession)", "kcp.session"},
	{"kcp.(*Listener)", "kcp.listener"},
	{"websocket.", "websocket"},
	{"dns.(*ClientDnsConnection)", "dns.client"},
	{"socks5.", "socks5"},
}

// session-attributable classes: must return to the baseline after the physical session has ended
var sessionClasses = map[string]bool{"smux.recvLoop": true, "smux.sendLoop": true, "smux.keepalive": true, "smux.shaperLoop": true,
	"streams.pipeData": true, "server.acceptStream": true, "server.multiplexToUpstream": true, "listener.HandleConnection": true,
	"server.AcceptConnection": true, "kcp.session": true, "dns.client": true}

func goroutineCensus() map[string]int {
	buf := make([]byte, 4<<20)
	buf = buf[:runtime.Stack(buf, true)]
	out := map[string]int{}
	for _, g := range strings.Split(string(buf), "\n\n") {
		cls := ""
		for _, c := range classes {
			if strings.Contains(g, c.needle) {
				cls = c.class
				break
			}
		}
		if cls == "" {
			if strings.Contains(g, "bokysan/socketace/v2/internal/") && !strings.Contains(g, "zzverif") {
				cls = "socketace.other"
			} else {
				continue
			}
		}
		out[cls]++
	}
	return out
}

func fdCount() int {
	d, err := os.ReadDir("/proc/self/fd")
	if err != nil {
		return -1
	}
	return len(d)
}

func cpuTicks() int64 {
	b, _ := os.ReadFile("/proc/self/stat")
	s := string(b)
	if i := strings.LastIndex(s, ")"); i >= 0 {
		f := strings.Fields(s[i+1:])
		if len(f) > 13 {
			u, _ := strconv.ParseInt(f[11], 10, 64)
			k, _ := strconv.ParseInt(f[12], 10, 64)
			return u + k
		}
	}
	return 0
}

func take(gc bool) probe {
	if gc {
		// unreachable sockets are closed by finalizers: give them their chance, they are not leaks
		runtime.GC()
		time.Sleep(10 * time.Millisecond)
		runtime.GC()
		time.Sleep(10 * time.Millisecond)
	}
	return probe{G: goroutineCensus(), FDs: fdCount(), Pipes: verifhook.Count("pipe.start") - verifhook.Count("pipe.end"),
		AErr: verifhook.Count("server.accept.err"), Ticks: cpuTicks()}
}

func (p probe) vector() string {
	var ks []string
	for k, v := range p.G {
		ks = append(ks, fmt.Sprintf("%s=%d", k, v))
	}
	sort.Strings(ks)
	return fmt.Sprintf("%v fds=%d pipes=%d", ks, p.FDs, p.Pipes)
}

// quiesce polls until the probe vector is unchanged over 5 consecutive polls (quiescent point)
// and cond (if any) holds, or until maxWait has passed. It returns the last probe.
func quiesce(cond func(probe) bool, maxWait time.Duration) (probe, bool) {
	deadline := time.Now().Add(maxWait)
	last, same := "", 0
	for {
		p := take(true)
		v := p.vector()
		if v == last {
			same++
		} else {
			last, same = v, 0
		}
		if same >= 4 && (cond == nil || cond(p)) {
			return p, true
		}
		if time.Now().After(deadline) {
			return p, false
		}
		time.Sleep(100 * time.Millisecond)
	}
}

func sessionGoroutines(p probe, base probe) map[string]int {
	out := map[string]int{}
	for c, n := range p.G {
		if sessionClasses[c] && n > base.G[c] {
			out[c] = n - base.G[c]
		}
	}
	return out
}

// ---- workload --------------------------------------------------------------------------------

// oneConn opens a logical connection, echoes a little, and closes it from the chosen side.
func oneConn(p *e2e.Pair, seed int64, closer string) *e2e.Failure {
	app, tgt, o, err := p.Open("echo")
	if err != nil {
		return &e2e.Failure{Kind: "open-failed", Info: map[string]interface{}{"err": err.Error()}}
	}
	if o != e2e.Done {
		return &e2e.Failure{Kind: "open-" + o.String(), Inconclusive: o == e2e.Inconclusive, Info: map[string]interface{}{"goroutines": e2e.Clip(e2e.Stacks(), 40000)}}
	}
	defer app.Close()
	defer tgt.Close()
	k := uint64(seed)*2 + 1
	if f := e2e.Duplex(app, tgt, &e2e.Stream{Key: k, Len: 1500}, &e2e.Stream{Key: k + 1, Len: 900}, "c2t", "t2c", nil); f != nil {
		return f
	}
	if closer == "app" {
		app.Close()
		return e2e.ExpectEOF(tgt, "c2t")
	}
	if hc, ok := tgt.(interface{ CloseWrite() error }); ok && seed%3 == 0 {
		// the target only shuts its sending side down and waits for the tunnel to end the connection: the application
		// sees the end, finishes, and the server must then release its socket to the target
		_ = hc.CloseWrite()
		if f := e2e.ExpectEOF(app, "t2c"); f != nil {
			return f
		}
		app.Close()
		return e2e.ExpectEOF(tgt, "target-that-shut-its-sending-side-first")
	}
	tgt.Close()
	return e2e.ExpectEOF(app, "t2c")
}

func runBatch(p *e2e.Pair, sc *scenario, from, to int) *e2e.Failure {
	rng := rand.New(rand.NewSource(sc.Seed + int64(from)))
	closerOf := func(i int) string {
		switch sc.Mode {
		case "seq-app":
			return "app"
		case "seq-target":
			return "target"
		}
		if rng.Intn(2) == 0 {
			return "app"
		}
		return "target"
	}
	if sc.Mode == "refused-opens" {
		for i := from; i < to; i++ {
			if i%10 == 0 { // an ordinary connection now and then: the session itself stays in use
				if f := oneConn(p, sc.Seed*100000+int64(i), "app"); f != nil {
					return f
				}
				continue
			}
			if f := refusedOpen(p); f != nil {
				return f
			}
		}
		return nil
	}
	if sc.Mode == "overlap" || sc.Mode == "mixed" {
		width := 8
		for i := from; i < to; i += width {
			var wg sync.WaitGroup
			var mu sync.Mutex
			var first *e2e.Failure
			closers := make([]string, width)
			for j := range closers {
				closers[j] = closerOf(i + j)
			}
			// untagged targets hand out accepted connections in accept order; with concurrent opens the
			// pairing app<->target socket is arbitrary, so overlap means: open all sequentially, then use
			// and close them concurrently
			type pair struct{ app, tgt net.Conn }
			var ps []pair
			for j := 0; j < width && i+j < to; j++ {
				app, tgt, o, err := p.Open("echo")
				if err != nil || o != e2e.Done {
					return &e2e.Failure{Kind: "open-failed-in-overlap", Inconclusive: o == e2e.Inconclusive, Info: map[string]interface{}{"err": fmt.Sprint(err), "outcome": o.String()}}
				}
				ps = append(ps, pair{app, tgt})
			}
			for j, pr := range ps {
				wg.Add(1)
				go func(j int, pr pair) {
					defer wg.Done()
					defer pr.app.Close()
					defer pr.tgt.Close()
					k := uint64(sc.Seed)*1000 + uint64(i+j)*2 + 1
					f := e2e.Duplex(pr.app, pr.tgt, &e2e.Stream{Key: k, Len: 3000}, &e2e.Stream{Key: k + 1, Len: 3000}, "c2t", "t2c", nil)
					if f == nil {
						if closers[j] == "app" {
							pr.app.Close()
							f = e2e.ExpectEOF(pr.tgt, "c2t")
						} else {
							pr.tgt.Close()
							f = e2e.ExpectEOF(pr.app, "t2c")
						}
					}
					if f != nil {
						mu.Lock()
						if first == nil {
							first = f
						}
						mu.Unlock()
					}
				}(j, pr)
			}
			wg.Wait()
			if first != nil {
				return first
			}
		}
		return nil
	}
	for i := from; i < to; i++ {
		if f := oneConn(p, sc.Seed*100000+int64(i), closerOf(i)); f != nil {
			return f
		}
	}
	return nil
}

// burst starts n local connections at once (each sends its own 8-byte id and must get it echoed by
// whichever target connection received it) and reports how many were served.
func burst(p *e2e.Pair, n int, seed int64) (served int, f *e2e.Failure) {
	tg := p.Targets["echo"]
	stopEcho := make(chan struct{})
	go func() {
		for {
			var c net.Conn
			got := e2e.Go(func() { c, _ = tg.Next() })
			select {
			case <-got:
			case <-stopEcho:
				return
			}
			if c == nil {
				return
			}
			go func(c net.Conn) {
				defer c.Close()
				b := make([]byte, 8)
				if _, err := io.ReadFull(c, b); err == nil {
					c.Write(b)
					e2e.Bump(8)
				}
			}(c)
		}
	}()
	var mu sync.Mutex
	var wg sync.WaitGroup
	for i := 0; i < n; i++ {
		wg.Add(1)
		go func(i int) {
			defer wg.Done()
			app, err := p.Dial("echo")
			if err != nil {
				return
			}
			defer app.Close()
			id := []byte(fmt.Sprintf("%04d%04d", seed%10000, i))
			app.Write(id)
			back := make([]byte, 8)
			app.SetReadDeadline(time.Now().Add(e2e.StallWindow()))
			if _, err := io.ReadFull(app, back); err == nil && string(back) == string(id) {
				mu.Lock()
				served++
				mu.Unlock()
				e2e.Bump(8)
			}
		}(i)
	}
	o := e2e.Wait(e2e.Go(wg.Wait))
	close(stopEcho)
	if o == e2e.Inconclusive {
		return served, &e2e.Failure{Kind: "busy", Inconclusive: true}
	}
	return served, nil
}

func startPair(sc *scenario) (*e2e.Pair, error) {
	relay := sc.Kind == "end" && sc.Mode != "client-shutdown"
	if sc.Mode == "refused-opens" {
		// a second listener asks for a channel the server does not offer: every connection to it is refused
		return e2e.Start(e2e.Options{Carrier: sc.Carrier, Channels: []e2e.ChanSpec{{Name: "echo"}, {Name: "chx"}},
			ListenerNames: map[string]string{"chx": "not-offered-by-the-server"}})
	}
	return e2e.Start(e2e.Options{Carrier: sc.Carrier, WithRelay: relay})
}

// refusedOpen makes one local connection for a channel the server refuses and waits until it is terminated.
func refusedOpen(p *e2e.Pair) *e2e.Failure {
	c, err := p.Dial("chx")
	if err != nil {
		return &e2e.Failure{Kind: "dial-failed", Info: map[string]interface{}{"err": err.Error()}}
	}
	defer c.Close()
	c.Write([]byte("hello?"))
	gone := e2e.Go(func() {
		b := make([]byte, 64)
		for {
			if _, e := c.Read(b); e != nil {
				return
			}
		}
	})
	switch e2e.Wait(gone) {
	case e2e.Stalled:
		return &e2e.Failure{Kind: "refused-connection-never-terminated"}
	case e2e.Inconclusive:
		return &e2e.Failure{Kind: "busy", Inconclusive: true}
	}
	e2e.Bump(1)
	return nil
}

func describe(p probe) map[string]interface{} {
	return map[string]interface{}{"goroutines": p.G, "fds": p.FDs, "pipes_outstanding": p.Pipes, "accept_errors": p.AErr}
}

func runGrowth(rec *vcommon.Rec, sc *scenario) {
	sig := "growth:" + sc.Carrier + ":" + sc.Mode
	p, err := startPair(sc)
	if err != nil {
		rec.Violation(sig+":setup-failed", sc, err.Error())
		return
	}
	defer p.Close()
	// warm-up: establishes the physical session and everything that is allocated once
	if f := runBatch(p, sc, 0, 8); f != nil {
		report(rec, sc, sig+":warmup", f)
		return
	}
	if f := runBatch(p, sc, 8, 8+sc.N1); f != nil {
		report(rec, sc, sig+":batch1", f)
		return
	}
	p1, q1 := quiesce(func(p probe) bool { return p.Pipes == 0 }, 30*time.Second)
	if f := runBatch(p, sc, 8+sc.N1, 8+sc.N2); f != nil {
		report(rec, sc, sig+":batch2", f)
		return
	}
	p2, q2 := quiesce(func(p probe) bool { return p.Pipes == 0 }, 30*time.Second)
	rec.Case(fmt.Sprintf("%v", *sc), true)
	rec.Stat("logical_connections_finished", int64(8+sc.N2))
	rec.Seen("scenario", sc.Kind+"/"+sc.Carrier+"/"+sc.Mode)
	rec.Sample(map[string]interface{}{"scenario": sc, "after_n1": describe(p1), "after_n2": describe(p2), "quiescent": []bool{q1, q2}})
	const slack = 4
	extra := float64(sc.N2-sc.N1) / 10 // a leak of one per ten connections would already exceed this
	_ = extra
	for c, n := range p2.G {
		if d := n - p1.G[c]; d > slack {
			rec.Violation(fmt.Sprintf("%s:goroutines-grow:%s", sig, c), sc, map[string]interface{}{"after_n1": describe(p1), "after_n2": describe(p2), "n1": sc.N1, "n2": sc.N2})
		}
	}
	if d := p2.FDs - p1.FDs; d > slack {
		rec.Violation(sig+":descriptors-grow", sc, map[string]interface{}{"after_n1": describe(p1), "after_n2": describe(p2), "n1": sc.N1, "n2": sc.N2})
	}
	if p2.Pipes-p1.Pipes > slack {
		rec.Violation(sig+":copy-loops-grow", sc, map[string]interface{}{"after_n1": describe(p1), "after_n2": describe(p2)})
	}
}

// runAbortedHandshakes: growth over PHYSICAL connections that never become sessions: a peer connects to the server, says
// nothing / half a request / the whole announce request, shuts its sending side down and waits. The server's handshake
// fails with end-of-stream; it must close the connection (the peer sees the end) and keep nothing.
func runAbortedHandshakes(rec *vcommon.Rec, sc *scenario) {
	sig := "growth:" + sc.Carrier + ":" + sc.Mode
	p, err := e2e.Start(e2e.Options{Carrier: sc.Carrier, NoClient: true})
	if err != nil {
		rec.Violation(sig+":setup-failed", sc, err.Error())
		return
	}
	defer p.Close()
	host := p.ServerURL[strings.Index(p.ServerURL, "://")+3:]
	netw := "tcp"
	if strings.HasPrefix(sc.Carrier, "unix") {
		netw = "unix"
	}
	said := [][]byte{nil, []byte("X-SOCKETACE / HT"), []byte("X-SOCKETACE / HTTP/1.1\r\nAccepts-Protocol-Version: v2.0.0\r\nUser-Agent: socketace/test\r\n\r\n"),
		[]byte("X-SOCKETACE / HTTP/1.1\r\nAccepts-Protocol-Ver")}
	type halfCloser interface{ CloseWrite() error }
	one := func(i int) *e2e.Failure {
		c, err := net.Dial(netw, host)
		if err != nil {
			return &e2e.Failure{Kind: "dial-failed", Info: map[string]interface{}{"err": err.Error()}}
		}
		defer c.Close()
		if b := said[i%len(said)]; b != nil {
			c.Write(b)
		}
		if hc, ok := c.(halfCloser); ok {
			hc.CloseWrite()
		}
		var rerr error
		ended := e2e.Go(func() {
			b := make([]byte, 512)
			for rerr == nil {
				_, rerr = c.Read(b)
			}
		})
		switch e2e.Wait(ended) {
		case e2e.Stalled:
			return &e2e.Failure{Kind: "peer-that-left-during-the-handshake-never-sees-the-connection-closed", Info: map[string]interface{}{"connection_number": i, "said_bytes": len(said[i%len(said)])}}
		case e2e.Inconclusive:
			return &e2e.Failure{Kind: "busy", Inconclusive: true}
		}
		e2e.Bump(1)
		return nil
	}
	batch := func(from, to int) *e2e.Failure {
		for i := from; i < to; i++ {
			if f := one(i); f != nil {
				return f
			}
		}
		return nil
	}
	if f := batch(0, 8); f != nil {
		report(rec, sc, sig+":warmup", f)
		return
	}
	if f := batch(8, 8+sc.N1); f != nil {
		report(rec, sc, sig+":batch1", f)
		return
	}
	p1, q1 := quiesce(nil, 30*time.Second)
	if f := batch(8+sc.N1, 8+sc.N2); f != nil {
		report(rec, sc, sig+":batch2", f)
		return
	}
	p2, q2 := quiesce(nil, 30*time.Second)
	rec.Case(fmt.Sprintf("%v", *sc), true)
	rec.Stat("aborted_handshakes_finished", int64(8+sc.N2))
	rec.Seen("scenario", sc.Kind+"/"+sc.Carrier+"/"+sc.Mode)
	rec.Sample(map[string]interface{}{"scenario": sc, "after_n1": describe(p1), "after_n2": describe(p2), "quiescent": []bool{q1, q2}})
	const slack = 4
	for c, n := range p2.G {
		if d := n - p1.G[c]; d > slack {
			rec.Violation(fmt.Sprintf("%s:goroutines-grow:%s", sig, c), sc, map[string]interface{}{"after_n1": describe(p1), "after_n2": describe(p2), "n1": sc.N1, "n2": sc.N2})
		}
	}
	if d := p2.FDs - p1.FDs; d > slack {
		rec.Violation(sig+":descriptors-grow", sc, map[string]interface{}{"after_n1": describe(p1), "after_n2": describe(p2), "n1": sc.N1, "n2": sc.N2})
	}
}

// runDeafApps: growth over logical connections whose application shuts its sending side down at once and never reads,
// while the target keeps sending more than any socket buffer holds. The application's end-of-stream ends the logical
// connection: the target must see it closed (its flood fails) although the application never reads a byte and keeps its
// socket; afterwards nothing may be held for it.
func runDeafApps(rec *vcommon.Rec, sc *scenario) {
	sig := "growth:" + sc.Carrier + ":" + sc.Mode
	p, err := e2e.Start(e2e.Options{Carrier: sc.Carrier})
	if err != nil {
		rec.Violation(sig+":setup-failed", sc, err.Error())
		return
	}
	defer p.Close()
	type halfCloser interface{ CloseWrite() error }
	var apps []net.Conn
	defer func() {
		for _, a := range apps {
			a.Close()
		}
	}()
	one := func(i int) *e2e.Failure {
		app, tgt, o, err := p.Open("echo")
		if err != nil || o != e2e.Done {
			return &e2e.Failure{Kind: "open-failed", Inconclusive: o == e2e.Inconclusive}
		}
		defer tgt.Close()
		hc, ok := app.(halfCloser)
		if !ok {
			app.Close()
			return &e2e.Failure{Kind: "harness: no CloseWrite on the application socket"}
		}
		apps = append(apps, app) // the application keeps its socket and never reads
		var sent int64
		ended := e2e.Go(func() {
			buf := make([]byte, 32768)
			for atomic.LoadInt64(&sent) < 64<<20 {
				n, err := tgt.Write(buf)
				atomic.AddInt64(&sent, int64(n))
				if n > 0 {
					e2e.Bump(n)
				}
				if err != nil {
					return
				}
			}
		})
		if i%2 == 0 {
			// every second application finishes only when the flood towards it has come to a standstill (every buffer on the
			// way is full and the copy towards the application is blocked in its Write)
			last, same := int64(-1), 0
			for k := 0; k < 400 && same < 6; k++ {
				time.Sleep(25 * time.Millisecond)
				if v := atomic.LoadInt64(&sent); v == last {
					same++
				} else {
					last, same = v, 0
				}
			}
		}
		hc.CloseWrite()
		switch e2e.Wait(ended) {
		case e2e.Stalled:
			return &e2e.Failure{Kind: "target-never-sees-the-end-of-a-connection-whose-application-has-finished", Info: map[string]interface{}{"connection_number": i, "flood_bytes_accepted": atomic.LoadInt64(&sent), "goroutines": e2e.Clip(e2e.Stacks(), 30000)}}
		case e2e.Inconclusive:
			return &e2e.Failure{Kind: "busy", Inconclusive: true}
		}
		if atomic.LoadInt64(&sent) >= 64<<20 {
			return &e2e.Failure{Kind: "target-could-send-64MiB-to-an-application-that-never-reads", Info: map[string]interface{}{"connection_number": i}}
		}
		return nil
	}
	batch := func(from, to int) *e2e.Failure {
		for i := from; i < to; i++ {
			if f := one(i); f != nil {
				return f
			}
		}
		// every logical connection of the batch has ended (its target has seen the end) while the applications still hold
		// their sockets: no copy loop may be left
		if pr, _ := quiesce(func(p probe) bool { return p.Pipes == 0 }, 30*time.Second); pr.Pipes > 0 {
			return &e2e.Failure{Kind: "copy-loops-left-for-connections-that-have-ended(applications-still-hold-their-sockets)", Info: map[string]interface{}{"copy_loops_outstanding": pr.Pipes, "applications": len(apps), "probe": describe(pr)}}
		}
		for _, a := range apps { // the applications go away at the end of a batch; their own descriptors are not the system's
			a.Close()
		}
		apps = nil
		return nil
	}
	n1, n2 := sc.N1/5, sc.N2/5
	if f := batch(0, 4); f != nil {
		report(rec, sc, sig+":warmup", f)
		return
	}
	if f := batch(4, 4+n1); f != nil {
		report(rec, sc, sig+":batch1", f)
		return
	}
	p1, q1 := quiesce(func(p probe) bool { return p.Pipes == 0 }, 30*time.Second)
	if f := batch(4+n1, 4+n2); f != nil {
		report(rec, sc, sig+":batch2", f)
		return
	}
	p2, q2 := quiesce(func(p probe) bool { return p.Pipes == 0 }, 30*time.Second)
	rec.Case(fmt.Sprintf("%v", *sc), true)
	rec.Stat("logical_connections_finished", int64(4+n2))
	rec.Seen("scenario", sc.Kind+"/"+sc.Carrier+"/"+sc.Mode)
	rec.Sample(map[string]interface{}{"scenario": sc, "after_n1": describe(p1), "after_n2": describe(p2), "quiescent": []bool{q1, q2}})
	const slack = 4
	for c, k := range p2.G {
		if d := k - p1.G[c]; d > slack {
			rec.Violation(fmt.Sprintf("%s:goroutines-grow:%s", sig, c), sc, map[string]interface{}{"after_n1": describe(p1), "after_n2": describe(p2)})
		}
	}
	if d := p2.FDs - p1.FDs; d > slack {
		rec.Violation(sig+":descriptors-grow", sc, map[string]interface{}{"after_n1": describe(p1), "after_n2": describe(p2)})
	}
	if p2.Pipes-p1.Pipes > slack {
		rec.Violation(sig+":copy-loops-grow", sc, map[string]interface{}{"after_n1": describe(p1), "after_n2": describe(p2)})
	}
}

// runUpstreamAway: growth over local connections that cannot be served because the only upstream is down for a while
// (each must be ended by the client), with served connections before and after each outage. Two outages of different
// length; what is held after the second must not exceed what was held after the first.
func runUpstreamAway(rec *vcommon.Rec, sc *scenario) {
	sig := "growth:" + sc.Carrier + ":" + sc.Mode
	ep, err := e2e.NewC16Endpoint(sc.Carrier, "E0", true)
	if err != nil {
		rec.Inconclusive(sig+":fixture: "+err.Error(), sc)
		return
	}
	defer ep.Close()
	cl, err := e2e.NewC16Client([]string{ep.URL()}, "", false)
	if err != nil {
		rec.Violation(sig+":setup-failed", sc, err.Error())
		return
	}
	defer cl.Close()
	n := 0
	attempt := func(mustServe bool) *e2e.Failure {
		n++
		app, err := cl.Dial()
		if err != nil {
			return &e2e.Failure{Kind: "dial-failed", Info: map[string]interface{}{"err": err.Error()}}
		}
		defer app.Close()
		tag := uint64(sc.Seed)<<20 + uint64(n)
		var hdr, banner [8]byte
		binary.BigEndian.PutUint64(hdr[:], tag)
		app.Write(hdr[:])
		var rerr error
		got := e2e.Go(func() { _, rerr = io.ReadFull(app, banner[:]) })
		switch e2e.Wait(got) {
		case e2e.Stalled:
			kind := "local-connection-neither-served-nor-ended-while-the-upstream-is-down"
			if mustServe {
				kind = "local-connection-not-served-after-the-upstream-came-back"
			}
			return &e2e.Failure{Kind: kind, Info: map[string]interface{}{"attempt": n, "goroutines": e2e.Clip(e2e.Stacks(), 30000)}}
		case e2e.Inconclusive:
			return &e2e.Failure{Kind: "busy", Inconclusive: true}
		}
		e2e.Bump(1)
		if mustServe {
			if rerr != nil {
				return &e2e.Failure{Kind: "local-connection-not-served-after-the-upstream-came-back", Info: map[string]interface{}{"attempt": n, "err": rerr.Error()}}
			}
			tgt, o := ep.Target.NextTagged(tag)
			if o != e2e.Done {
				return &e2e.Failure{Kind: "target-side-not-found", Inconclusive: o == e2e.Inconclusive}
			}
			defer tgt.Close()
			return e2e.Duplex(app, tgt, &e2e.Stream{Key: tag*4 + 1, Len: 2000}, &e2e.Stream{Key: tag*4 + 2, Len: 2000}, "c2t", "t2c", nil)
		}
		return nil
	}
	cycle := func(failed int) *e2e.Failure {
		for i := 0; i < 4; i++ {
			if f := attempt(true); f != nil {
				return f
			}
		}
		ep.StopServer()
		ep.CutAll(true)
		for i := 0; i < failed; i++ {
			if f := attempt(false); f != nil {
				return f
			}
		}
		if err := ep.RestartServer(); err != nil {
			return &e2e.Failure{Kind: "fixture: restart failed: " + err.Error(), Inconclusive: true}
		}
		for i := 0; i < 4; i++ {
			if f := attempt(true); f != nil {
				return f
			}
		}
		return nil
	}
	if f := cycle(sc.N1 / 5); f != nil {
		report(rec, sc, sig+":outage1", f)
		return
	}
	p1, q1 := quiesce(func(p probe) bool { return p.Pipes == 0 }, 30*time.Second)
	if f := cycle(sc.N2 / 5); f != nil {
		report(rec, sc, sig+":outage2", f)
		return
	}
	p2, q2 := quiesce(func(p probe) bool { return p.Pipes == 0 }, 30*time.Second)
	rec.Case(fmt.Sprintf("%v", *sc), true)
	rec.Stat("local_connections_during_outages", int64(sc.N1/5+sc.N2/5))
	rec.Seen("scenario", sc.Kind+"/"+sc.Carrier+"/"+sc.Mode)
	rec.Sample(map[string]interface{}{"scenario": sc, "after_outage1": describe(p1), "after_outage2": describe(p2), "quiescent": []bool{q1, q2}})
	const slack = 4
	for c, k := range p2.G {
		if d := k - p1.G[c]; d > slack {
			rec.Violation(fmt.Sprintf("%s:goroutines-grow:%s", sig, c), sc, map[string]interface{}{"after_outage1": describe(p1), "after_outage2": describe(p2)})
		}
	}
	if d := p2.FDs - p1.FDs; d > slack {
		rec.Violation(sig+":descriptors-grow", sc, map[string]interface{}{"after_outage1": describe(p1), "after_outage2": describe(p2)})
	}
}

// runForwarded: growth over logical connections that the client serves from its listener's forward address (no upstream
// involved). Each connection moves keyed data both ways; then one side shuts its sending side down, the other sees
// end-of-stream and closes, and the first side's read must end, too. Sockets, goroutines and copy loops must not grow.
func runForwarded(rec *vcommon.Rec, sc *scenario) {
	sig := "growth:" + sc.Carrier + ":" + sc.Mode
	t, err := e2e.NewTarget("FWD", "tcp", "", true)
	if err != nil {
		rec.Inconclusive(sig+":fixture: "+err.Error(), sc)
		return
	}
	defer t.Close()
	t.Banner = e2e.C16Banner("FWD")
	cl, err := e2e.NewC16Client([]string{"tcp://127.0.0.1:1"}, t.URL(), false)
	if err != nil {
		rec.Violation(sig+":setup-failed", sc, err.Error())
		return
	}
	defer cl.Close()
	type halfCloser interface{ CloseWrite() error }
	one := func(i int) *e2e.Failure {
		app, err := cl.Dial()
		if err != nil {
			return &e2e.Failure{Kind: "dial-failed", Info: map[string]interface{}{"err": err.Error()}}
		}
		defer app.Close()
		tag := uint64(sc.Seed)<<20 + uint64(i)
		var hdr, banner [8]byte
		binary.BigEndian.PutUint64(hdr[:], tag)
		if _, err := app.Write(hdr[:]); err != nil {
			return &e2e.Failure{Kind: "write-failed", Info: map[string]interface{}{"err": err.Error()}}
		}
		tgt, o := t.NextTagged(tag)
		if o != e2e.Done {
			return &e2e.Failure{Kind: "forward-target-never-connected", Inconclusive: o == e2e.Inconclusive}
		}
		defer tgt.Close()
		got := e2e.Go(func() { io.ReadFull(app, banner[:]) })
		if o := e2e.Wait(got); o != e2e.Done {
			return &e2e.Failure{Kind: "banner-never-arrived", Inconclusive: o == e2e.Inconclusive}
		}
		if f := e2e.Duplex(app, tgt, &e2e.Stream{Key: tag*4 + 1, Len: 3000}, &e2e.Stream{Key: tag*4 + 2, Len: 3000}, "c2t", "t2c", nil); f != nil {
			return f
		}
		first, second, dir := app, tgt, "c2t"
		if sc.Mode == "forwarded-target-first" {
			first, second, dir = tgt, app, "t2c"
		}
		hc, ok := first.(halfCloser)
		if !ok {
			return &e2e.Failure{Kind: "harness: no CloseWrite on this socket"}
		}
		hc.CloseWrite()
		if f := e2e.ExpectEOF(second, dir); f != nil {
			return f
		}
		second.Close()
		// the side that finished first waits for the end of the connection
		var rerr error
		ended := e2e.Go(func() {
			b := make([]byte, 256)
			for rerr == nil {
				_, rerr = first.Read(b)
			}
		})
		switch e2e.Wait(ended) {
		case e2e.Stalled:
			return &e2e.Failure{Kind: "side-that-finished-first-never-sees-the-end", Info: map[string]interface{}{"connection_number": i, "goroutines": e2e.Clip(e2e.Stacks(), 30000)}}
		case e2e.Inconclusive:
			return &e2e.Failure{Kind: "busy", Inconclusive: true}
		}
		e2e.Bump(1)
		return nil
	}
	batch := func(from, to int) *e2e.Failure {
		for i := from; i < to; i++ {
			if f := one(i); f != nil {
				return f
			}
		}
		return nil
	}
	if f := batch(0, 8); f != nil {
		report(rec, sc, sig+":warmup", f)
		return
	}
	if f := batch(8, 8+sc.N1); f != nil {
		report(rec, sc, sig+":batch1", f)
		return
	}
	p1, q1 := quiesce(func(p probe) bool { return p.Pipes == 0 }, 30*time.Second)
	if f := batch(8+sc.N1, 8+sc.N2); f != nil {
		report(rec, sc, sig+":batch2", f)
		return
	}
	p2, q2 := quiesce(func(p probe) bool { return p.Pipes == 0 }, 30*time.Second)
	rec.Case(fmt.Sprintf("%v", *sc), true)
	rec.Stat("logical_connections_finished", int64(8+sc.N2))
	rec.Stat("forwarded_connections_finished", int64(8+sc.N2))
	rec.Seen("scenario", sc.Kind+"/"+sc.Carrier+"/"+sc.Mode)
	rec.Sample(map[string]interface{}{"scenario": sc, "after_n1": describe(p1), "after_n2": describe(p2), "quiescent": []bool{q1, q2}})
	const slack = 4
	for c, n := range p2.G {
		if d := n - p1.G[c]; d > slack {
			rec.Violation(fmt.Sprintf("%s:goroutines-grow:%s", sig, c), sc, map[string]interface{}{"after_n1": describe(p1), "after_n2": describe(p2), "n1": sc.N1, "n2": sc.N2})
		}
	}
	if d := p2.FDs - p1.FDs; d > slack {
		rec.Violation(sig+":descriptors-grow", sc, map[string]interface{}{"after_n1": describe(p1), "after_n2": describe(p2), "n1": sc.N1, "n2": sc.N2})
	}
	if p2.Pipes-p1.Pipes > slack {
		rec.Violation(sig+":copy-loops-grow", sc, map[string]interface{}{"after_n1": describe(p1), "after_n2": describe(p2)})
	}
}

func report(rec *vcommon.Rec, sc *scenario, sig string, f *e2e.Failure) {
	if f.Inconclusive {
		rec.Inconclusive(sig+":"+f.Kind, sc)
		return
	}
	// the workload itself failed: that is C01/C02/C17's business, but this check cannot run then
	rec.Case(fmt.Sprintf("%v", *sc), true)
	rec.Violation(sig+":workload-failed:"+f.Kind, sc, f.Info)
}

func runEnd(rec *vcommon.Rec, sc *scenario) {
	sig := "end:" + sc.Carrier + ":" + sc.Mode
	p, err := startPair(sc)
	if err != nil {
		rec.Violation(sig+":setup-failed", sc, err.Error())
		return
	}
	defer p.Close()
	base, _ := quiesce(nil, 10*time.Second) // nothing connected yet: the client connects lazily
	if f := runBatch(p, sc, 0, 5); f != nil {
		report(rec, sc, sig+":warmup", f)
		return
	}
	// two logical connections stay open and idle across the end of the session
	var held []net.Conn
	for i := 0; i < 2; i++ {
		app, tgt, o, err := p.Open("echo")
		if err != nil || o != e2e.Done {
			report(rec, sc, sig+":hold", &e2e.Failure{Kind: "open-failed", Inconclusive: o == e2e.Inconclusive, Info: map[string]interface{}{"err": fmt.Sprint(err)}})
			return
		}
		held = append(held, app, tgt)
	}
	live, _ := quiesce(nil, 10*time.Second)
	if len(sessionGoroutines(live, base)) == 0 {
		rec.Inconclusive("no session goroutines visible while the session is up: the census cannot see them", sc)
		return
	}
	aerr0 := live.AErr
	// end the physical session
	rng := vcommon.NewRand(sc.Seed, "c14garbage")
	garbage := make([]byte, 64)
	rng.Read(garbage)
	switch sc.Mode {
	case "client-shutdown":
		p.Client.Shutdown()
	case "relay-fin+burst-reconnect":
		// the carrier is cut and a burst of local connections re-establishes the session (three rounds, with
		// seeded delays at the client's connect hooks to spread the interleavings); then the client is shut
		// down: whatever physical sessions the bursts created must all be released
		if p.Relay == nil {
			rec.Inconclusive("no stream relay on this carrier", sc)
			return
		}
		hr := vcommon.NewRand(sc.Seed, "c14hook")
		var hmu sync.Mutex
		jitter := func() {
			hmu.Lock()
			d := time.Duration(hr.Intn(8000)) * time.Microsecond
			hmu.Unlock()
			time.Sleep(d)
		}
		verifhook.Set("upstream.unlocked", jitter)
		defer verifhook.Set("upstream.unlocked", nil)
		for _, c := range held {
			c.Close()
		}
		held = nil
		for round := 0; round < 5; round++ {
			for _, l := range p.Relay.Links() {
				l.CutRST()
			}
			time.Sleep(50 * time.Millisecond)
			served, f := burst(p, 8, sc.Seed+int64(round))
			if f != nil {
				rec.Inconclusive("burst: "+f.Kind, sc)
				return
			}
			rec.Stat("burst_connections_served", int64(served))
			rec.Stat("burst_connections_started", 8)
		}
		rec.Stat("physical_connections_seen_by_relay", p.Relay.ConnCount())
		p.Client.Shutdown()
	case "relay-fin", "relay-rst", "cut-server-side", "cut-client-side", "garbage-to-server", "garbage-to-client":
		if p.Relay == nil {
			rec.Inconclusive("no stream relay on this carrier", sc)
			return
		}
		links := p.Relay.Links()
		if len(links) == 0 {
			rec.Inconclusive("relay saw no physical connection", sc)
			return
		}
		for _, l := range links {
			switch sc.Mode {
			case "relay-fin":
				l.CutFIN()
			case "relay-rst":
				l.CutRST()
			case "cut-server-side":
				l.Server.Close()
			case "cut-client-side":
				l.Client.Close()
			case "garbage-to-server":
				l.InjectToServer(garbage)
			case "garbage-to-client":
				l.InjectToClient(garbage)
			}
		}
	case "blackhole":
		if p.Relay != nil {
			p.Relay.SetBlackHole(true)
		} else if p.UDPRelay != nil {
			p.UDPRelay.SetBlackHole(true)
		} else {
			rec.Inconclusive("no relay", sc)
			return
		}
	}
	// the harness's own ends of the held connections: drain until they terminate, then close
	for _, c := range held {
		go func(c net.Conn) {
			buf := make([]byte, 4096)
			for {
				if _, err := c.Read(buf); err != nil {
					c.Close()
					return
				}
			}
		}(c)
	}
	// bounded progress: within 75 s (the multiplexer's own keep-alive needs 30-40 s to notice a silent
	// carrier) every goroutine attributable to the session must be gone
	limit := 75 * time.Second
	if v := os.Getenv("VERIF_C14_LIMIT"); v != "" {
		n, _ := strconv.Atoi(v)
		limit = time.Duration(n) * time.Second
	}
	tEnd := time.Now()
	after, ok := quiesce(func(pr probe) bool { return len(sessionGoroutines(pr, base)) == 0 && pr.Pipes == 0 }, limit)
	rec.StatMax("seconds_until_reclaimed:"+sc.Mode, int64(time.Since(tEnd).Seconds()))
	if sc.Mode == "blackhole" || strings.HasPrefix(sc.Mode, "garbage") || strings.HasPrefix(sc.Mode, "cut-") {
		// the harness ends are only released when the system closes them; make sure nothing of ours holds them
		for _, c := range held {
			c.Close()
		}
		if !ok {
			after, ok = quiesce(func(pr probe) bool { return len(sessionGoroutines(pr, base)) == 0 && pr.Pipes == 0 }, 15*time.Second)
		}
	}
	rec.Case(fmt.Sprintf("%v", *sc), true)
	rec.Seen("scenario", sc.Kind+"/"+sc.Carrier+"/"+sc.Mode)
	rec.Stat("session_ends_observed", 1)
	rec.Sample(map[string]interface{}{"scenario": sc, "baseline": describe(base), "session_up": describe(live), "after_end": describe(after), "reclaimed": ok})
	if !ok {
		left := sessionGoroutines(after, base)
		var cl []string
		for c := range left {
			cl = append(cl, c)
		}
		sort.Strings(cl)
		what := strings.Join(cl, "+")
		if what == "" {
			what = "copy-loops"
		}
		rec.Violation(sig+":not-reclaimed:"+what, sc, map[string]interface{}{"baseline": describe(base), "session_up": describe(live), "after_75s": describe(after), "stacks": e2e.Clip(e2e.Stacks(), 60000)})
	}
	if d := after.FDs - base.FDs; d > 4 && ok {
		rec.Violation(sig+":descriptors-not-reclaimed", sc, map[string]interface{}{"baseline": describe(base), "after": describe(after)})
	}
	// busy loop: over an idle window the accept-error counter and the CPU time must stand still
	t0 := take(false)
	time.Sleep(3 * time.Second)
	t1 := take(false)
	cpu := float64(t1.Ticks-t0.Ticks) / 100.0 / 3.0 // cores
	spins := t1.AErr - t0.AErr
	rec.StatMax("idle_cpu_percent_after_session_end", int64(cpu*100))
	rec.StatMax("accept_errors_total", t1.AErr-aerr0)
	if spins >= 10 && cpu > 0.5 {
		rec.Violation(sig+":dead-session-serviced-in-a-busy-loop", sc, map[string]interface{}{"accept_errors_in_3s": spins, "cpu_cores": cpu})
	} else if cpu > 0.5 {
		// a physical witness without the logical one: say so, do not claim
		rec.Note("high CPU in the idle window without accept-loop spins", map[string]interface{}{"cpu_cores": cpu, "scenario": sc})
	}
}

func scenarios(rec *vcommon.Rec) []*scenario {
	var out []*scenario
	n1, n2 := rec.Pick(50, 200), rec.Pick(200, 1000)
	carriers := []string{"tcp", "tcp+starttls", "ws", "udp"}
	if rec.Thorough() {
		carriers = append(carriers, "unix", "tcp+tls", "wss", "stdio")
	}
	i := 0
	add := func(sc scenario) {
		sc.Seed = rec.Seed()*1000 + int64(i)
		i++
		out = append(out, &sc)
	}
	for _, c := range carriers {
		for _, m := range []string{"seq-app", "seq-target", "overlap", "mixed", "refused-opens"} {
			if !rec.Thorough() && (m == "mixed" || m == "refused-opens") && c != "tcp" && !(m == "refused-opens" && c == "ws") {
				continue
			}
			add(scenario{Kind: "growth", Carrier: c, Mode: m, N1: n1, N2: n2})
		}
	}
	// applications that finish at once and never read, targets that flood
	add(scenario{Kind: "growth", Carrier: "tcp", Mode: "deaf-applications", N1: n1, N2: n2})
	add(scenario{Kind: "growth", Carrier: "ws", Mode: "deaf-applications", N1: n1, N2: n2})
	// the only upstream is away for a while
	add(scenario{Kind: "growth", Carrier: "tcp", Mode: "upstream-away", N1: n1, N2: n2})
	add(scenario{Kind: "growth", Carrier: "ws", Mode: "upstream-away", N1: n1, N2: n2})
	// peers that leave during the handshake
	add(scenario{Kind: "growth", Carrier: "tcp", Mode: "aborted-handshakes", N1: n1, N2: n2})
	add(scenario{Kind: "growth", Carrier: "unix", Mode: "aborted-handshakes", N1: n1, N2: n2})
	// connections served from the listener's forward address (no carrier at all)
	add(scenario{Kind: "growth", Carrier: "forward-address", Mode: "forwarded-app-first", N1: n1, N2: n2})
	add(scenario{Kind: "growth", Carrier: "forward-address", Mode: "forwarded-target-first", N1: n1, N2: n2})
	for _, c := range carriers {
		if c == "stdio" {
			continue
		}
		modes := []string{"client-shutdown", "relay-fin", "relay-rst", "cut-server-side", "cut-client-side", "garbage-to-server", "garbage-to-client", "relay-fin+burst-reconnect", "blackhole"}
		if strings.HasPrefix(c, "udp") {
			modes = []string{"client-shutdown", "blackhole"}
		}
		for _, m := range modes {
			if m == "blackhole" && !rec.Thorough() && c != "tcp" && c != "udp" && c != "ws" {
				continue
			}
			add(scenario{Kind: "end", Carrier: c, Mode: m})
		}
	}
	// logical connections for an offered channel whose target cannot be reached (refused port, missing socket, a
	// target that is down for a while). Appended last: the seeds of the scenarios above stay what they were.
	if rec.Thorough() {
		for _, c := range carriers {
			for _, m := range []string{"dead-target-tcp", "dead-target-unix", "flapping-target"} {
				add(scenario{Kind: "growth", Carrier: c, Mode: m, N1: n1, N2: n2})
			}
		}
	} else {
		add(scenario{Kind: "growth", Carrier: "tcp", Mode: "dead-target-tcp", N1: n1, N2: n2})
		add(scenario{Kind: "growth", Carrier: "ws", Mode: "dead-target-unix", N1: n1, N2: n2})
		add(scenario{Kind: "growth", Carrier: "udp", Mode: "dead-target-tcp", N1: n1, N2: n2})
		add(scenario{Kind: "growth", Carrier: "tcp+starttls", Mode: "flapping-target", N1: n1, N2: n2})
	}
	return out
}

func TestVerifC14(t *testing.T) {
	e2e.Quiet()
	rec := vcommon.Open()
	defer rec.Close()
	run := func(sc *scenario) {
		rec.Mark(sc)
		if sc.Kind == "growth" && sc.Mode == "deaf-applications" {
			runDeafApps(rec, sc)
		} else if sc.Kind == "growth" && sc.Mode == "upstream-away" {
			runUpstreamAway(rec, sc)
		} else if sc.Kind == "growth" && sc.Mode == "aborted-handshakes" {
			runAbortedHandshakes(rec, sc)
		} else if sc.Kind == "growth" && strings.HasPrefix(sc.Mode, "forwarded-") {
			runForwarded(rec, sc)
		} else if sc.Kind == "growth" && (strings.HasPrefix(sc.Mode, "dead-target-") || sc.Mode == "flapping-target") {
			runDeadTarget(rec, sc)
		} else if sc.Kind == "growth" {
			runGrowth(rec, sc)
		} else {
			runEnd(rec, sc)
		}
	}
	if rec.Replay != nil {
		var sc scenario
		if err := json.Unmarshal(rec.Replay, &sc); err != nil {
			t.Fatal(err)
		}
		run(&sc)
		return
	}
	// exactly one scenario per child: VERIF_SHARDS equals the number of scenarios (see checks/C14.py)
	scs := scenarios(rec)
	for i, sc := range scs {
		if i == rec.Shard() {
			run(sc)
		}
	}
}
