// C15, crowds: MANY stalled peers, beyond any small bound the server might have.
//
//  1. crowd scenarios (ordinary scenarios, see buildCases): 20..48 peers (thorough: 20, 40, 100) stalled at
//     one point INSIDE the handshake (a peer that is past the handshake costs the server nothing a bound
//     could count), on every endpoint kind but dns; the datagram endpoint gets every such point.
//
//  2. the DNS endpoint's session table filled completely by stalled peers (this file): good client A
//     first; then peers that send the version request (the "connect" of the tunnel, it allocates the
//     session) and nothing else arrive, 16 at a time, each from an address of its own, until the server
//     answers one of them "server full" (36*36 sessions; the harness does not count on the number, it
//     fills until the server says so); a few more arrive at the full table and are turned away; then some
//     of the stalled peers leave properly (the close request of the tunnel, acknowledged by the server);
//     then A opens another logical connection and new clients connect: slots are free again, they must be
//     served (stall rule). Never seen "full" and nothing failed = inconclusive. A child of its own.
package c15

import (
	"fmt"
	"net"
	"runtime"
	"strings"
	"sync"
	"sync/atomic"
	"time"

	sdns "github.com/bokysan/socketace/v2/internal/streams/dns"
	"github.com/bokysan/socketace/v2/internal/streams/dns/commands"
	"github.com/bokysan/socketace/v2/internal/verifhook"
	"github.com/bokysan/socketace/v2/internal/zzverif/e2e"
	"github.com/bokysan/socketace/v2/internal/zzverif/vcommon"
)

const faultDNSFull = "dns-session-table-full"

// handshakePointsOf: the stall points of a kind that lie inside the socketace handshake.
func handshakePointsOf(kind string) []string {
	var out []string
	for _, pt := range pointsOf(kind) {
		if strings.HasPrefix(pt, "upgraded-") || strings.HasPrefix(pt, "dns-") {
			continue
		}
		out = append(out, pt)
	}
	return out
}

func buildDnsFullCases(rec *vcommon.Rec) []*c15Case {
	var out []*c15Case
	rng := vcommon.NewRand(rec.Seed(), "c15dnsfull")
	for v := 0; v < rec.Pick(1, 3); v++ {
		c := &c15Case{Kind: "dns", Order: "good-first", Points: []string{ptDNSVersion}, Label: "after-session-table-full:" + ptDNSVersion,
			Goods: 2, Fault: faultDNSFull, Extra: 1 + rng.Intn(3) + 4*v, Leavers: 3 + rng.Intn(30) + 200*v,
			Seed: rec.Seed()*1000000 + 700000 + int64(v)}
		if v == 2 {
			c.Kind = "dns+starttls"
		}
		for i := 0; i < 5; i++ {
			c.Sizes = append(c.Sizes, [2]int64{sizes[rng.Intn(len(sizes)-2)], sizes[rng.Intn(len(sizes)-2)]})
		}
		out = append(out, c)
	}
	return out
}

// versionPeer is a DNS peer that sends the version request and nothing else.
type versionPeer struct {
	dc     *sdns.ClientDnsConnection
	userID uint16
}

// dnsVersionOnly: one peer from a fresh source address. outcome: "slot", "full", or "" with err.
func dnsVersionOnly(a *net.UDPAddr, domain string, attempts int, stop func() bool) (vp *versionPeer, outcome string, err error) {
	comm, err := sdns.NewNetConnectionClientCommunicator(&sdns.ClientConfig{Servers: sdns.AddressList{a}})
	if err != nil {
		return nil, "", err
	}
	dc, err := sdns.NewClientDnsConnection(domain, comm)
	if err != nil {
		comm.Close()
		return nil, "", err
	}
	dc.Serializer.UseEdns0 = false
	if err := dc.AutoDetectQueryType(); err != nil {
		comm.Close()
		return nil, "", fmt.Errorf("dns query type detection: %v", err)
	}
	var last error
	for attempt := 0; attempt < attempts && (attempt == 0 || !stop()); attempt++ { // (a datagram may be lost)
		resp, err := dc.Query(&commands.VersionRequest{ClientVersion: sdns.ProtocolVersion}, 5*time.Second)
		if err != nil {
			last = err
			continue
		}
		v, ok := resp.(*commands.VersionResponse)
		if !ok {
			last = fmt.Errorf("answer to the version request is a %T", resp)
			continue
		}
		if v.Err != nil {
			if v.Err.Error() == commands.BadServerFull.Error() {
				comm.Close()
				return nil, "full", nil
			}
			comm.Close()
			return nil, "", fmt.Errorf("version request refused: %v", v.Err)
		}
		return &versionPeer{dc: dc, userID: v.UserId}, "slot", nil
	}
	comm.Close()
	return nil, "", fmt.Errorf("no answer to the version request: %v", last)
}

// leave sends the tunnel's close request for the peer's session.
func (vp *versionPeer) leave() error {
	t := true
	var last error
	for attempt := 0; attempt < 2; attempt++ {
		_, err := vp.dc.Query(&commands.SetOptionsRequest{UserId: vp.userID, Closed: &t}, 5*time.Second)
		if err == nil || err == commands.BadConn {
			return nil
		}
		last = err
	}
	return last
}

func (rs *runState) runDnsFullScenario(c *c15Case) (stalled bool) {
	rec := rs.rec
	rec.Mark(c)
	p, err := startServer(c)
	if err != nil {
		rec.Violation(c.Kind+":setup-failed", c, err.Error())
		return
	}
	dnsListenersStarted++
	var goods []*e2e.ExtraClient
	var kept []*versionPeer
	var keptMu sync.Mutex
	violBefore := rec.ViolationCount()
	defer func() {
		done := e2e.Go(func() {
			for _, vp := range kept {
				vp.dc.Communicator.Close()
			}
			for _, g := range goods {
				g.Close()
			}
			p.Close()
		})
		if e2e.WaitW(done, 3*e2e.StallWindow()) != e2e.Done {
			rs.abandon = "the clean-up of a scenario did not finish"
			rec.Note(rs.abandon, map[string]interface{}{"case": c, "goroutines": e2e.Clip(e2e.Stacks(), 60000)})
			if rec.ViolationCount() == violBefore {
				rec.Inconclusive("the clean-up of a scenario (server and client shutdown) did not finish", c)
			}
		}
		runtime.KeepAlive(kept)
	}()

	sizeOf := func(i int) [2]int64 { return c.Sizes[i%len(c.Sizes)] }
	nLogical := 0
	var verified int64
	var crowd map[string]interface{}
	report := func(o goodOutcome, who string, after bool) bool {
		label := c.Label
		if !after {
			label = "no-bad-peers"
		}
		switch {
		case o.ok:
			nLogical++
			verified += o.verified
			return true
		case o.inconcl != "":
			rec.Inconclusive(o.inconcl, c)
			return false
		}
		o.info["good_client"] = who
		o.info["stalled_peers"] = crowd
		switch o.stage {
		case "blocked":
			stalled = true
			if after {
				rec.Violation(c.Kind+":blocked-by-peer-stalled:"+label, c, o.info)
			} else {
				rec.Violation(c.Kind+":good-client-stalled:no-bad-peers", c, o.info)
			}
		case "failed", "dial":
			rec.Violation(c.Kind+":good-client-failed:"+label, c, o.info)
		default:
			if strings.Contains(o.kind, "stalled") {
				stalled = true
			}
			rec.Violation(c.Kind+":good-client-transfer:"+o.kind+":"+label, c, o.info)
		}
		return false
	}

	first, err := p.NewClient("a")
	if err != nil {
		rec.Violation(c.Kind+":setup-failed", c, err.Error())
		return
	}
	goods = append(goods, first)
	if !report(oneLogical(p, first, sizeOf(0), uint64(c.Seed)*16), "A (before any bad peer)", false) {
		rec.Case(caseKey(c), true)
		return
	}

	// the stalled peers fill the table
	a, err := net.ResolveUDPAddr("udp", hostOf(p))
	if err != nil {
		rec.Violation(c.Kind+":setup-failed", c, err.Error())
		return
	}
	slotsBefore := verifhook.Count("dns.newUser.slot")
	const workers, bound = 16, 36*36 + 64
	var next, gotSlot, full, failed int64
	var firstErr atomic.Value
	var wg sync.WaitGroup
	for w := 0; w < workers; w++ {
		wg.Add(1)
		go func() {
			defer wg.Done()
			for atomic.LoadInt64(&full) == 0 && atomic.LoadInt64(&failed) == 0 {
				i := atomic.AddInt64(&next, 1)
				if i > bound {
					return
				}
				vp, outcome, err := dnsVersionOnly(a, p.Opt.Domain, 3, func() bool { return atomic.LoadInt64(&full) > 0 })
				e2e.Bump(1)
				switch {
				case outcome == "full":
					atomic.AddInt64(&full, 1)
				case err != nil:
					atomic.AddInt64(&failed, 1)
					firstErr.Store(err.Error())
				default:
					n := atomic.AddInt64(&gotSlot, 1)
					keptMu.Lock()
					if len(kept) < c.Leavers && n%3 == 1 {
						kept = append(kept, vp) // it will leave later: it keeps its address
					} else {
						vp.dc.Communicator.Close() // never heard of again
					}
					keptMu.Unlock()
				}
			}
		}()
	}
	switch e2e.Wait(e2e.Go(wg.Wait)) {
	case e2e.Inconclusive:
		rec.Inconclusive("process busy while the stalled peers filled the session table", c)
		return
	case e2e.Stalled:
		rec.Inconclusive("filling the session table made no progress", c)
		return
	}
	// a few more arrive at the full table, one after the other
	var extraFull, extraOther int
	if full > 0 {
		for i := 0; i < c.Extra; i++ {
			_, outcome, _ := dnsVersionOnly(a, p.Opt.Domain, 1, func() bool { return true })
			e2e.Bump(1)
			if outcome == "full" {
				extraFull++
			} else {
				extraOther++
			}
		}
	}
	crowd = map[string]interface{}{"peers_given_a_session": gotSlot, "answered_server_full": full + int64(extraFull),
		"later_arrivals_without_an_answer_or_slot": extraOther, "failed": failed, "first_failure": firstErr.Load(),
		"sessions_allocated_by_the_listener": verifhook.Count("dns.newUser.slot") - slotsBefore}

	// some of the stalled peers leave
	var leftN int64
	var leaveProblem atomic.Value
	ld := e2e.Go(func() {
		for _, vp := range kept {
			if err := vp.leave(); err != nil {
				leaveProblem.Store(err.Error())
				break // (a peer that gets no answer to its close: the others would wait as long; the good clients decide)
			}
			atomic.AddInt64(&leftN, 1)
			e2e.Bump(1)
		}
	})
	if e2e.Wait(ld) != e2e.Done {
		leaveProblem.Store("no progress")
	}
	left, leaveErr := int(atomic.LoadInt64(&leftN)), fmt.Sprint(leaveProblem.Load())
	crowd["peers_that_left"] = left
	crowd["peers_asked_to_leave"] = len(kept)
	crowd["leave_problem"] = leaveErr

	// the good clients arrive, all at once
	type job struct {
		ec  *e2e.ExtraClient
		who string
		idx int
	}
	jobs := []job{{first, "A (second logical connection on its existing session)", 1}}
	for i := 0; i < c.Goods; i++ {
		ec, err := p.NewClient(fmt.Sprintf("g%d", i))
		if err != nil {
			rec.Violation(c.Kind+":setup-failed", c, err.Error())
			return
		}
		goods = append(goods, ec)
		jobs = append(jobs, job{ec, fmt.Sprintf("new client %d", i), i + 2})
	}
	outs := make([]goodOutcome, len(jobs))
	var gw sync.WaitGroup
	for i, j := range jobs {
		gw.Add(1)
		go func(i int, j job) {
			defer gw.Done()
			outs[i] = oneLogical(p, j.ec, sizeOf(j.idx), uint64(c.Seed)*16+uint64(j.idx))
		}(i, j)
	}
	gw.Wait()
	allOK := true
	for i, o := range outs {
		if !report(o, jobs[i].who, true) {
			allOK = false
		}
	}
	rec.Case(caseKey(c), true)
	if !allOK {
		return
	}
	if full == 0 || left == 0 {
		rec.Inconclusive(fmt.Sprintf("session table: the scenario was not set up (server-full answers: %d, failures: %d (%v), peers that left: %d of %d %s)",
			full, failed, firstErr.Load(), left, len(kept), leaveErr), c)
		return
	}
	rec.Stat("scenarios_held", 1)
	rec.Stat("scenarios_held:"+c.Kind, 1)
	rec.Stat("session_table_full_scenarios_held", 1)
	rec.Stat("session_table_full:stalled_peers_holding_a_session", gotSlot)
	rec.Stat("session_table_full:arrivals_answered_server_full", full+int64(extraFull))
	rec.Stat("session_table_full:peers_that_left", int64(left))
	rec.StatMax("bad_peers_at_once", gotSlot)
	rec.Stat("good_logical_connections_completed", int64(nLogical))
	rec.Stat("good_logical_connections_completed:"+c.Kind, int64(nLogical))
	rec.Stat("bytes_verified", verified)
	rec.Seen("tuple(kind,order,label)", c.Kind+"|"+c.Order+"|"+c.Label)
	rec.Sample(map[string]interface{}{"case": c, "stalled_peers": crowd, "good_logical_connections": nLogical, "bytes_verified": verified})
	return
}
