// C15, stalled peers that use a resource up: the endpoint's accept path meets a TRANSIENT resource
// error while peers are stalled.
//
// The server never times a silent peer out, so silent peers pile up; each one pins a descriptor. When
// the descriptor table of the process is full, the connection that arrives next cannot be accepted
// (accept4 -> EMFILE). That is a state stalled peers bring about, and it passes: as soon as some of
// them have left, descriptors are there again, and from then on other clients must be served as ever.
//
// Server, peers and good clients share ONE process here, hence one descriptor table. The scenario lowers
// the soft RLIMIT_NOFILE of the process to "what is open + 2*pairs + 1" (free descriptor NUMBERS are
// counted, the limit bounds numbers, not counts), lets stalled peers connect one after the other until
// the table is full (each costs two descriptors, its own and the server's; the odd one out goes to a
// peer's socket, so that the server's accept is the call that finds none; should the count be off, a
// reserve descriptor is released and exactly one more peer connects, which gives the same state), waits
// until the server's accept error has been SEEN (log line of the accept loop / of net/http), lets most
// of the stalled peers leave, gives the limit back, and then the good clients arrive: client A, who was
// connected before all this, opens another logical connection, and new clients connect. Verdict: the
// usual one (stall rule on the good clients). No accept error seen and nothing failed = inconclusive.
// Such a scenario runs in a child of its own (work items after the long-stall ones).
package c15

import (
	"bytes"
	"fmt"
	stdlog "log"
	"os"
	"runtime"
	"sort"
	"strconv"
	"strings"
	"sync"
	"sync/atomic"
	"syscall"
	"time"

	"github.com/bokysan/socketace/v2/internal/zzverif/e2e"
	"github.com/bokysan/socketace/v2/internal/zzverif/vcommon"
	"github.com/sirupsen/logrus"
)

const faultFD = "descriptor-exhaustion"

var fdKinds = []string{"tcp", "unix", "tcp+tls", "tcp+starttls", "ws", "wss"}
var fdMoreKinds = []string{"unix+tls", "unix+starttls", "ws+starttls"}

// fdPointsOf: the stall points a piled-up peer can take with nothing but its one socket.
func fdPointsOf(kind string) []string {
	base, sec := baseOf(kind)
	pts := []string{ptConnect}
	switch {
	case sec == "tls":
		pts = append(pts, ptTLSHello)
	case base == "ws":
		pts = append(pts, ptHTTPReq)
	default:
		pts = append(pts, ptFirstLine)
	}
	return pts
}

func buildFdCases(rec *vcommon.Rec) []*c15Case {
	ks := fdKinds
	if rec.Thorough() {
		ks = append(append([]string(nil), fdKinds...), fdMoreKinds...)
	}
	var out []*c15Case
	for _, kind := range ks {
		rng := vcommon.NewRand(rec.Seed(), "c15fd/"+kind)
		pts := fdPointsOf(kind)
		n := rec.Pick(1, 4)
		for v := 0; v < n; v++ {
			pt := pts[(v+rng.Intn(len(pts)))%len(pts)]
			pairs := rec.Pick(10+rng.Intn(6), 16+rng.Intn(40))
			c := &c15Case{Kind: kind, Order: "good-first", Points: []string{pt}, Label: "after-descriptor-exhaustion:" + pt, Goods: 1 + rng.Intn(2),
				Fault: faultFD, Pairs: pairs, LeavePct: 50 + rng.Intn(46), Seed: rec.Seed()*1000000 + 800000 + int64(len(out))}
			for i := 0; i < 5; i++ {
				c.Sizes = append(c.Sizes, [2]int64{sizes[rng.Intn(len(sizes))], sizes[rng.Intn(len(sizes))]})
			}
			out = append(out, c)
		}
	}
	return out
}

// ---- observing the server's accept error -------------------------------------------------------

type acceptErrWatch struct {
	n        int64
	oldHooks logrus.LevelHooks
	oldLevel logrus.Level
	oldStd   *os.File
}

func (w *acceptErrWatch) Levels() []logrus.Level { return []logrus.Level{logrus.ErrorLevel} }
func (w *acceptErrWatch) Fire(e *logrus.Entry) error {
	if strings.Contains(e.Message, "too many open files") {
		atomic.AddInt64(&w.n, 1)
	}
	return nil
}

// Write receives the standard logger's lines (net/http reports its accept errors there).
func (w *acceptErrWatch) Write(b []byte) (int, error) {
	if bytes.Contains(b, []byte("Accept error")) && bytes.Contains(b, []byte("too many open files")) {
		atomic.AddInt64(&w.n, 1)
	}
	return len(b), nil
}

func (w *acceptErrWatch) seen() int64 { return atomic.LoadInt64(&w.n) }

func watchAcceptErrors() *acceptErrWatch {
	w := &acceptErrWatch{oldLevel: logrus.GetLevel()}
	hooks := logrus.LevelHooks{}
	hooks.Add(w)
	w.oldHooks = logrus.StandardLogger().ReplaceHooks(hooks)
	logrus.SetLevel(logrus.ErrorLevel) // output stays discarded (e2e.Quiet)
	stdlog.SetOutput(w)
	return w
}

func (w *acceptErrWatch) stop() {
	logrus.SetLevel(w.oldLevel)
	logrus.StandardLogger().ReplaceHooks(w.oldHooks)
	stdlog.SetOutput(os.Stderr)
}

// ---- the descriptor table ----------------------------------------------------------------------

// openFdNumbers lists the descriptor numbers in use (without the one used for looking).
func openFdNumbers() ([]int, error) {
	d, err := os.Open("/proc/self/fd")
	if err != nil {
		return nil, err
	}
	defer d.Close()
	names, err := d.Readdirnames(-1)
	if err != nil {
		return nil, err
	}
	self := int(d.Fd())
	var out []int
	for _, n := range names {
		if v, err := strconv.Atoi(n); err == nil && v != self {
			out = append(out, v)
		}
	}
	sort.Ints(out)
	return out, nil
}

// limitFor returns the smallest limit L that leaves exactly `free` unused descriptor numbers below L.
func limitFor(used []int, free int) uint64 {
	in := map[int]bool{}
	for _, v := range used {
		in[v] = true
	}
	got := 0
	for l := 0; ; l++ {
		if got == free {
			return uint64(l)
		}
		if !in[l] {
			got++
		}
	}
}

func isEMFILE(err error) bool {
	return err != nil && (strings.Contains(err.Error(), "too many open files") || strings.Contains(err.Error(), "socket: too many"))
}

// ---- the scenario ------------------------------------------------------------------------------

func (rs *runState) runFdScenario(c *c15Case) (stalled bool) {
	rec := rs.rec
	rec.Mark(c)
	if len(c.Points) != 1 || c.Pairs < 1 {
		rec.Violation(c.Kind+":setup-failed", c, "case descriptor: one stall point and pairs >= 1 expected")
		return
	}
	pt := c.Points[0]
	p, err := startServer(c)
	if err != nil {
		rec.Violation(c.Kind+":setup-failed", c, err.Error())
		return
	}
	var saved syscall.Rlimit
	limited := false
	restore := func() {
		if limited {
			syscall.Setrlimit(syscall.RLIMIT_NOFILE, &saved)
			limited = false
		}
	}
	watch := watchAcceptErrors()
	var bads []*badPeer
	var goods []*e2e.ExtraClient
	var reserve *os.File
	violBefore := rec.ViolationCount()
	defer func() {
		restore()
		watch.stop()
		done := e2e.Go(func() {
			if reserve != nil {
				reserve.Close()
			}
			for _, b := range bads {
				b.close()
			}
			for _, g := range goods {
				g.Close()
			}
			p.Close()
		})
		if e2e.WaitW(done, 3*e2e.StallWindow()) != e2e.Done {
			rs.abandon = "the clean-up of a scenario did not finish"
			rec.Note(rs.abandon, map[string]interface{}{"case": c, "goroutines": e2e.Clip(e2e.Stacks(), 60000)})
			if rec.ViolationCount() == violBefore {
				rec.Inconclusive("the clean-up of a scenario (server and client shutdown) did not finish", c)
			}
		}
		runtime.KeepAlive(bads)
	}()

	sizeOf := func(i int) [2]int64 { return c.Sizes[i%len(c.Sizes)] }
	nLogical := 0
	var verified int64
	report := func(o goodOutcome, who string, after bool) bool {
		label := c.Label
		if !after {
			label = "no-bad-peers"
		}
		switch {
		case o.ok:
			nLogical++
			verified += o.verified
			return true
		case o.inconcl != "":
			rec.Inconclusive(o.inconcl, c)
			return false
		}
		o.info["good_client"] = who
		o.info["bad_peers"] = describe(bads)
		o.info["server_accept_errors_seen"] = watch.seen()
		switch o.stage {
		case "blocked":
			stalled = true
			if after {
				rec.Violation(c.Kind+":blocked-by-peer-stalled:"+label, c, o.info)
			} else {
				rec.Violation(c.Kind+":good-client-stalled:no-bad-peers", c, o.info)
			}
		case "failed", "dial":
			rec.Violation(c.Kind+":good-client-failed:"+label, c, o.info)
		default:
			if strings.Contains(o.kind, "stalled") {
				stalled = true
			}
			rec.Violation(c.Kind+":good-client-transfer:"+o.kind+":"+label, c, o.info)
		}
		return false
	}

	// client A, before anything else (this also opens whatever the process opens lazily)
	first, err := p.NewClient("a")
	if err != nil {
		rec.Violation(c.Kind+":setup-failed", c, err.Error())
		return
	}
	goods = append(goods, first)
	if !report(oneLogical(p, first, sizeOf(0), uint64(c.Seed)*16), "A (before any bad peer)", false) {
		rec.Case(caseKey(c), true)
		return
	}
	// the later clients exist already (their listeners are open): nothing but their traffic needs descriptors later
	for i := 0; i < c.Goods; i++ {
		ec, err := p.NewClient(fmt.Sprintf("g%d", i))
		if err != nil {
			rec.Violation(c.Kind+":setup-failed", c, err.Error())
			return
		}
		goods = append(goods, ec)
	}
	time.Sleep(300 * time.Millisecond) // A's first logical connection is being torn down: let its descriptors go (shaping only)

	// the table: 2*pairs+1 free numbers; the reserve descriptor is open already and not one of them
	if reserve, err = os.Open("/dev/null"); err != nil {
		rec.Inconclusive("cannot open the reserve descriptor: "+err.Error(), c)
		return
	}
	used, err := openFdNumbers()
	if err != nil {
		rec.Inconclusive("cannot list /proc/self/fd: "+err.Error(), c)
		return
	}
	if err := syscall.Getrlimit(syscall.RLIMIT_NOFILE, &saved); err != nil {
		rec.Inconclusive("getrlimit: "+err.Error(), c)
		return
	}
	lowered := saved
	lowered.Cur = limitFor(used, 2*c.Pairs+1)
	if lowered.Cur > saved.Cur {
		rec.Inconclusive("the descriptor limit of the process is lower than the scenario needs", c)
		return
	}
	if err := syscall.Setrlimit(syscall.RLIMIT_NOFILE, &lowered); err != nil {
		rec.Inconclusive("setrlimit: "+err.Error(), c)
		return
	}
	limited = true

	// stalled peers pile up, one after the other
	dialOne := func() error {
		b := &badPeer{Point: pt}
		c0, err := rawDial(p, c.Kind)
		if err != nil {
			return err
		}
		b.raw = c0
		bads = append(bads, b)
		switch pt {
		case ptTLSHello:
			_, err = c0.Write(clientHello()[:20])
		case ptHTTPReq:
			_, err = c0.Write([]byte("GET /ws/all HT"))
		case ptFirstLine:
			_, err = c0.Write([]byte("X-SOCKETACE / HT"))
		}
		b.mu.Lock()
		b.reached, b.step = err == nil, "connected"
		if err != nil {
			b.err = err.Error()
		}
		b.mu.Unlock()
		return nil
	}
	var dialErr error
	for len(bads) < c.Pairs+2 && watch.seen() == 0 {
		if dialErr = dialOne(); dialErr != nil {
			break
		}
		time.Sleep(5 * time.Millisecond) // let the server accept it (shaping only)
	}
	if dialErr != nil && !isEMFILE(dialErr) {
		restore()
		rec.Violation(c.Kind+":scripted-peer-rejected:"+pt, c, map[string]interface{}{"err": dialErr.Error(), "bad_peers": len(bads)})
		rec.Case(caseKey(c), true)
		return
	}
	waitSeen := func(d time.Duration) bool {
		end := time.Now().Add(d)
		for watch.seen() == 0 && time.Now().Before(end) {
			time.Sleep(10 * time.Millisecond)
		}
		return watch.seen() > 0
	}
	if !waitSeen(2 * time.Second) {
		// the count was off by one (the table is full, but the server's accept was not the call that found out):
		// one number is released and exactly one more peer connects
		reserve.Close()
		reserve = nil
		dialErr = dialOne()
		waitSeen(10 * time.Second)
	}
	seen := watch.seen() > 0
	piled := len(bads)

	// most of them leave (seeded choice), the others stay as they are
	rng := vcommon.NewRand(c.Seed, "c15fd-leave")
	leave := piled * c.LeavePct / 100
	if leave < 1 {
		leave = 1
	}
	for _, i := range rng.Perm(piled)[:leave] {
		bads[i].raw.Close()
		bads[i].mu.Lock()
		bads[i].step = "left"
		bads[i].mu.Unlock()
	}
	restore()
	var staying []*badPeer
	for _, b := range bads {
		if _, step, _ := b.status(); step != "left" {
			staying = append(staying, b)
		}
	}

	// the good clients arrive, all at once
	type job struct {
		ec  *e2e.ExtraClient
		who string
		idx int
	}
	jobs := []job{{first, "A (second logical connection on its existing session)", 1}}
	for i, ec := range goods[1:] {
		jobs = append(jobs, job{ec, fmt.Sprintf("new client %d", i), i + 2})
	}
	outs := make([]goodOutcome, len(jobs))
	var gw sync.WaitGroup
	for i, j := range jobs {
		gw.Add(1)
		go func(i int, j job) {
			defer gw.Done()
			outs[i] = oneLogical(p, j.ec, sizeOf(j.idx), uint64(c.Seed)*16+uint64(j.idx))
		}(i, j)
	}
	gw.Wait()
	allOK := true
	for i, o := range outs {
		if !report(o, jobs[i].who, true) {
			allOK = false
		}
	}
	open := 0
	for _, b := range staying {
		s := b.state()
		rec.Seen("bad-peer-state-at-end", c.Kind+"|"+b.Point+"|"+s)
		if strings.HasPrefix(s, "open") {
			open++
		}
	}
	rec.Case(caseKey(c), true)
	if !allOK {
		return
	}
	if !seen {
		rec.Inconclusive("descriptor exhaustion: the server's accept error could not be observed", c)
		return
	}
	rec.Stat("scenarios_held", 1)
	rec.Stat("scenarios_held:"+c.Kind, 1)
	rec.Stat("descriptor_exhaustion_scenarios_held", 1)
	rec.Stat("descriptor_exhaustion:accept_errors_seen", watch.seen())
	rec.Stat("descriptor_exhaustion:peers_piled_up", int64(piled))
	rec.Stat("descriptor_exhaustion:peers_that_left", int64(leave))
	rec.Stat("descriptor_exhaustion:peers_still_stalled_and_open_at_end", int64(open))
	rec.Stat("good_logical_connections_completed", int64(nLogical))
	rec.Stat("good_logical_connections_completed:"+c.Kind, int64(nLogical))
	rec.Stat("bytes_verified", verified)
	rec.Seen("descriptor-exhaustion(kind,point)", c.Kind+"|"+pt)
	rec.Seen("tuple(kind,order,label)", c.Kind+"|"+c.Order+"|"+c.Label)
	rec.Sample(map[string]interface{}{"case": c, "peers_piled_up": piled, "left": leave, "limit": lowered.Cur, "accept_errors_seen": watch.seen(),
		"good_logical_connections": nLogical, "bytes_verified": verified})
	return
}
