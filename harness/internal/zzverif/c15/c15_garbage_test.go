// C15, garbage peers: a peer that SENDS GARBAGE instead of stalling. Every garbage peer sends one
// piece of garbage at one layer of the connection set-up (raw transport, HTTP below the websocket,
// first socketace request, second socketace request), keeps its connection open and never sends
// another byte. What the server answers to it (400, close, nothing) is recorded and never judged:
// the property only says that nobody else pays for it.
//
// The garbage is generated, not listed: a request is (request line of w words, separator style,
// header block shape, line ending) and always ends with the empty line that completes it, so that
// the server's parser runs to its verdict; plus a few non-textual classes (binary, over-long line,
// a TLS hello on a plain endpoint, plain HTTP probes, an unterminated header block ...).
package c15

import (
	"bytes"
	"fmt"
	"io"
	"math/rand"
	"strconv"
	"strings"
	"time"

	"github.com/bokysan/socketace/v2/internal/socketace"
	"github.com/bokysan/socketace/v2/internal/streams/dns/commands"
	dutil "github.com/bokysan/socketace/v2/internal/streams/dns/util"
	"github.com/bokysan/socketace/v2/internal/util/enc"
	"github.com/bokysan/socketace/v2/internal/version"
	"github.com/bokysan/socketace/v2/internal/zzverif/vcommon"
	mdns "github.com/miekg/dns"
	"golang.org/x/net/dns/dnsmessage"
)

const (
	ptGarbageRaw  = "garbage-raw"       // on the bare transport of an endpoint that expects TLS records / KCP segments / DNS messages
	ptGarbageHTTP = "garbage-http"      // ws, wss: instead of the HTTP request of the websocket upgrade (inside TLS for wss)
	ptGarbageReq1 = "garbage-request-1" // on the carrier, instead of the announce request
	ptGarbageReq2 = "garbage-request-2" // on the carrier, after a valid announce (200 read), instead of the upgrade request
)

func isGarbagePoint(pt string) bool { return strings.HasPrefix(pt, "garbage-") }

// garbagePointsOf lists the garbage layers an endpoint kind has.
func garbagePointsOf(kind string) []string {
	base, sec := baseOf(kind)
	var pts []string
	if sec == "tls" || base == "udp" || base == "dns" {
		pts = append(pts, ptGarbageRaw)
	}
	if base == "ws" || base == "wss" {
		pts = append(pts, ptGarbageHTTP)
	}
	return append(pts, ptGarbageReq1, ptGarbageReq2)
}

// ---- the generator ---------------------------------------------------------------------------

var (
	gSeps = []string{"sp", "sp", "sp2", "tab", "lead", "trail"}
	gHdrs = []string{"none", "valid", "no-colon", "lead-space", "key-blank", "empty-key", "long-value", "nul", "high", "many", "dup"}
	gEnds = []string{"crlf", "lf"}
	// classes that are not (words x separator x headers x line end)
	gSpecial = []string{"binary", "long-line", "tls-hello", "http-probe", "response-line", "unterminated-headers",
		"cr-only", "semantic", "only-newlines", "smux-frame"}
)

const maxWords = 4

func wordsOf(rng *rand.Rand, pos, w int) []string {
	methods := []string{"GET", socketace.RequestMethod, "get", "POST", "hello", "X-SOCKETACE:"}
	uris := []string{"/", "*", "/ws/all", "http://x/", "world"}
	protos := []string{"HTTP/1.1", "HTTP/1.0", "HTTP/0.9", "HTTP/9.9", "FTP/1.0", "http"}
	m, u, p := methods[rng.Intn(len(methods))], uris[rng.Intn(len(uris))], protos[rng.Intn(len(protos))]
	switch w {
	case 0:
		return nil
	case 1:
		return []string{[]string{m, u, p}[rng.Intn(3)]}
	case 2:
		return [][]string{{m, u}, {u, p}, {m, p}}[rng.Intn(3)]
	case 3:
		// three words: well-formed as a line; wrong for its place in the handshake
		if pos == 2 {
			m = []string{socketace.RequestMethod, "POST", "get", "hello"}[rng.Intn(4)]
		} else {
			m = []string{"GET", "get", "POST", "hello", "x-socketace"}[rng.Intn(5)]
		}
		return []string{m, u, p}
	}
	out := []string{m, u, p}
	for len(out) < w {
		out = append(out, []string{"extra", "/", "HTTP/1.1"}[rng.Intn(3)])
	}
	return out
}

func joinWords(ws []string, sep string) string {
	switch sep {
	case "sp2":
		return strings.Join(ws, "  ")
	case "tab":
		return strings.Join(ws, "\t")
	case "lead":
		return " " + strings.Join(ws, " ")
	case "trail":
		return strings.Join(ws, " ") + " "
	}
	return strings.Join(ws, " ")
}

func validHeaders(pos int) []string {
	if pos == 2 {
		return []string{socketace.UserAgent + ": socketace/" + version.AppVersion(), "Upgrade: socketace/" + version.ProtocolVersion, "Connection: upgrade"}
	}
	return []string{socketace.AcceptsProtocolVersion + ": " + version.ProtocolVersion, socketace.UserAgent + ": socketace/" + version.AppVersion()}
}

func headerLines(rng *rand.Rand, pos int, shape string, big bool) []string {
	v := validHeaders(pos)
	switch shape {
	case "none":
		return nil
	case "valid":
		return v
	case "no-colon":
		return append([]string{"this line has no colon"}, v...)
	case "lead-space":
		return append([]string{" continued: before any header"}, v...)
	case "key-blank":
		return append(v, "User Agent: x")
	case "empty-key":
		return append(v, ": value without a key")
	case "long-value":
		n := 5000
		if big {
			n = 300000
		}
		return append(v, "X-Pad: "+strings.Repeat("a", n))
	case "nul":
		return append(v, "X-Bin: a\x00b")
	case "high":
		return append(v, "X-Bin: \xff\xfe\x80", "X-\xc3\xa4: 1")
	case "many":
		n := 300
		if big {
			n = 5000
		}
		for i := 0; i < n; i++ {
			v = append(v, fmt.Sprintf("X-H%d: %d", i, rng.Intn(1000)))
		}
		return v
	case "dup":
		return append(v, append(v, "Connection: close", "Upgrade: socketace/0.0", socketace.AcceptsProtocolVersion+": 0.0")...)
	}
	return nil
}

// textRequest builds one complete request text.
func textRequest(rng *rand.Rand, pos, w int, sep, hdr, end string, big bool) (class string, data []byte) {
	le := "\r\n"
	if end == "lf" {
		le = "\n"
	}
	var b bytes.Buffer
	b.WriteString(joinWords(wordsOf(rng, pos, w), sep))
	b.WriteString(le)
	for _, h := range headerLines(rng, pos, hdr, big) {
		b.WriteString(h)
		b.WriteString(le)
	}
	b.WriteString(le)
	return fmt.Sprintf("text:words=%d:sep=%s:hdr=%s:end=%s", w, sep, hdr, end), b.Bytes()
}

func specialGarbage(rng *rand.Rand, pos int, class string, big bool) (string, []byte) {
	switch class {
	case "binary":
		g := make([]byte, 16+rng.Intn(200))
		rng.Read(g)
		return "binary", append(g, "\r\n\r\n"...)
	case "long-line":
		n := 5000 + rng.Intn(5000)
		if big {
			n = 200000
		}
		return "long-line", []byte(strings.Repeat("A", n) + "\r\n\r\n")
	case "tls-hello":
		return "tls-hello", append(append([]byte(nil), clientHello()...), "\r\n\r\n"...)
	case "http-probe":
		probes := []string{"GET / HTTP/1.0\r\nHost: x\r\n\r\n", "OPTIONS * HTTP/1.1\r\n\r\n", "CONNECT example.org:443 HTTP/1.1\r\nHost: example.org:443\r\n\r\n",
			"GET /\r\n\r\n", "PRI * HTTP/2.0\r\n\r\nSM\r\n\r\n", "HEAD /ws/all HTTP/1.1\r\nHost: x\r\nConnection: Upgrade\r\nUpgrade: websocket\r\n\r\n"}
		return "http-probe", []byte(probes[rng.Intn(len(probes))])
	case "response-line":
		return "response-line", []byte("HTTP/1.1 200 OK\r\nServer: socketace/" + version.AppVersion() + "\r\n\r\n")
	case "unterminated-headers":
		// a peer that stalls inside the header block (the one garbage class that is never complete)
		return "unterminated-headers", []byte(socketace.RequestMethod + " / HTTP/1.1\r\n" + strings.Join(validHeaders(pos), "\r\n") + "\r\nX-Half: ")
	case "cr-only":
		return "cr-only", []byte("GET /\rHTTP/1.1\r\r" + "\r\n\r\n")
	case "only-newlines":
		return "only-newlines", []byte(strings.Repeat([]string{"\r\n", "\n"}[rng.Intn(2)], 1+rng.Intn(6)))
	case "smux-frame":
		// a well-formed smux SYN + PSH before any handshake
		return "smux-frame", append([]byte{1, 0, 0, 0, 1, 0, 0, 0, 1, 2, 4, 0, 1, 0, 0, 0, 'e', 'c', 'h', 'o'}, "\r\n\r\n"...)
	}
	// "semantic": syntactically perfect, wrong for its place
	var lines []string
	if pos == 2 {
		lines = [][]string{
			{"GET / HTTP/1.1", "Upgrade: socketace/" + version.ProtocolVersion},                                                           // no Connection: upgrade
			{"GET / HTTP/1.1", "Connection: upgrade", "Upgrade: socketace/9.9.9"},                                                         // version never negotiated
			{"GET / HTTP/1.1", "Connection: upgrade", "Upgrade: websocket"},                                                               // other protocol
			{"GET / HTTP/1.1", "Connection: close"},                                                                                       //
			{socketace.RequestMethod + " / HTTP/1.1", socketace.AcceptsProtocolVersion + ": " + version.ProtocolVersion},                  // the announce once more
			{"GET / HTTP/1.1", "Connection: upgrade", "Upgrade: socketace/" + version.ProtocolVersion, "Security: rot13"},                 // unknown security
			{"GET / HTTP/1.1", "Connection: UPGRADE", "Upgrade: SOCKETACE/" + version.ProtocolVersion, "Security: starttls, starttls"},    //
			{"GET / HTTP/1.1", "Connection: upgrade", "Upgrade: socketace/" + version.ProtocolVersion, "Security: " + rndWord(rng, 2000)}, //
		}[rng.Intn(8)]
	} else {
		lines = [][]string{
			{"GET / HTTP/1.1", "Connection: upgrade", "Upgrade: socketace/" + version.ProtocolVersion}, // the upgrade without an announce
			{socketace.RequestMethod + " / HTTP/1.1"},                                                  // no version list
			{socketace.RequestMethod + " / HTTP/1.1", socketace.AcceptsProtocolVersion + ": 0.0.0, 99"},
			{socketace.RequestMethod + " / HTTP/1.1", socketace.AcceptsProtocolVersion + ": " + strings.Repeat(",", 500)},
			{socketace.RequestMethod + " / HTTP/1.1", socketace.AcceptsProtocolVersion + ": \"unterminated quote"},
			{socketace.RequestMethod + " " + rndWord(rng, 3000) + " HTTP/1.1", socketace.AcceptsProtocolVersion + ": " + version.ProtocolVersion + "x"},
		}[rng.Intn(6)]
	}
	return "semantic", []byte(strings.Join(lines, "\r\n") + "\r\n\r\n")
}

func rndWord(rng *rand.Rand, n int) string {
	b := make([]byte, n)
	for i := range b {
		b[i] = byte('a' + rng.Intn(26))
	}
	return string(b)
}

// datagramGarbage builds one datagram for a udp (KCP) or dns endpoint.
func datagramGarbage(rng *rand.Rand, base, domain string, i int) (string, []byte) {
	rnd := func(n int) []byte {
		g := make([]byte, n)
		rng.Read(g)
		return g
	}
	if base == "udp" {
		switch i % 6 {
		case 0:
			return "dgram:1-byte", rnd(1)
		case 1:
			return "dgram:shorter-than-a-kcp-header", rnd(1 + rng.Intn(23))
		case 2:
			return "dgram:random-header-size", rnd(24)
		case 3:
			return "dgram:random-mtu", rnd(1400)
		case 4:
			// KCP segment layout (conv, cmd, frg, wnd, ts, sn, una, len) with an unknown command and a length that lies
			g := rnd(24 + rng.Intn(64))
			g[4] = byte(85 + rng.Intn(100))
			g[20], g[21], g[22], g[23] = 0xff, 0xff, 0xff, 0x7f
			return "dgram:kcp-bad-cmd-and-length", g
		default:
			// a push segment for a conversation nobody opened, announcing more payload than it carries
			g := rnd(24 + rng.Intn(32))
			g[4] = 81
			g[20], g[21], g[22], g[23] = 0x00, 0x10, 0, 0
			return "dgram:kcp-push-short-payload", g
		}
	}
	query := func(name string, qt uint16) []byte {
		m := new(mdns.Msg)
		m.Id = uint16(rng.Intn(65536))
		m.RecursionDesired = true
		m.Question = []mdns.Question{{Name: name, Qtype: qt, Qclass: mdns.ClassINET}}
		b, err := m.Pack()
		if err != nil {
			return rnd(40)
		}
		return b
	}
	label := func(n int) string {
		const abc = "abcdefghijklmnopqrstuvwxyz0123456789-"
		b := make([]byte, n)
		for i := range b {
			b[i] = abc[rng.Intn(len(abc)-1)]
		}
		return string(b)
	}
	qts := []uint16{mdns.TypeCNAME, mdns.TypeTXT, mdns.TypeA, mdns.TypeMX, mdns.TypeNULL, mdns.TypeSRV, mdns.TypeANY, mdns.TypeAAAA}
	qt := qts[rng.Intn(len(qts))]
	switch i % 9 {
	case 8:
		// well-formed DATA queries of the tunnel under the small session identifiers other peers of the endpoint are given:
		// junk payload that a server has to turn away, because the sender's address owns none of these sessions. The
		// descriptor holds the recipe only (domain and a seed); sprayDatagrams makes the datagrams when they are sent.
		return "dgrams:data-queries-under-small-session-ids", []byte(fmt.Sprintf("%s %d", domain, rng.Int63()))
	case 0:
		return "dgram:1-byte", rnd(1)
	case 1:
		return "dgram:shorter-than-a-dns-header", rnd(1 + rng.Intn(11))
	case 2:
		return "dgram:random", rnd(12 + rng.Intn(200))
	case 3:
		return "dgram:query-other-domain", query(label(10)+".example.net.", qt)
	case 4:
		return "dgram:query-domain-itself", query(domain+".", qt)
	case 5:
		// any first letter (command), random rest
		return "dgram:query-random-command", query(label(1+rng.Intn(60))+"."+domain+".", qt)
	case 6:
		return "dgram:query-long-random-labels", query(label(63)+"."+label(63)+"."+label(40)+"."+domain+".", qt)
	default:
		b := query(label(20)+"."+domain+".", qt)
		b[2] |= 0x80 // a response, not a query
		return "dgram:dns-response", b
	}
}

// sprayDatagrams sends the forged data queries of the class above: for the session identifiers 0 and 1, every eighth
// sequence number of the whole 16-bit range in the codec of an established session (so that whatever a session's next
// sequence number is, some of the queries lie just ahead of it) and the first sixteen in the codec of a session's first
// packets; the acknowledgement fields sweep the range as well. Paced, so that the endpoint's socket buffer takes them.
func sprayDatagrams(w io.Writer, recipe []byte) (int, error) {
	var domain string
	var seed int64
	if _, err := fmt.Sscanf(string(recipe), "%s %d", &domain, &seed); err != nil {
		return 0, err
	}
	rng := rand.New(rand.NewSource(seed))
	ser := commands.Serializer{Domain: domain}
	sent := 0
	one := func(e enc.Encoder, uid, seq uint16) error {
		data := make([]byte, 20+rng.Intn(60))
		rng.Read(data)
		req := &commands.PacketRequest{UserId: uid, LastAckedSeqNo: seq + 0x7000, Packet: &dutil.Packet{SeqNo: seq, Data: data}}
		m, err := ser.EncodeDnsRequestWithParams(req, dnsmessage.Type(mdns.TypeNULL), e)
		if err != nil {
			return nil
		}
		m.Id = uint16(rng.Intn(65536))
		b, err := m.Pack()
		if err != nil {
			return nil
		}
		if _, err := w.Write(b); err != nil {
			return err
		}
		sent++
		if sent%32 == 0 {
			time.Sleep(time.Millisecond)
		}
		return nil
	}
	for uid := uint16(0); uid < 2; uid++ {
		for seq := 0; seq < 16; seq++ {
			if err := one(enc.Base32Encoding, uid, uint16(seq)); err != nil {
				return sent, err
			}
		}
		for seq := 0; seq < 65536; seq += 8 {
			if err := one(enc.Base128Encoding, uid, uint16(seq)); err != nil {
				return sent, err
			}
		}
	}
	return sent, nil
}

// rawGarbage builds garbage for the bare transport of a stream endpoint that expects TLS.
func rawGarbage(rng *rand.Rand, i int, big bool) (string, []byte) {
	switch i % 5 {
	case 0:
		// a TLS record header that announces more than a record may carry, then junk
		g := make([]byte, 5+64)
		rng.Read(g)
		g[0], g[1], g[2], g[3], g[4] = 22, 3, 1, 0xff, 0xff
		return "raw:tls-record-oversized", g
	case 1:
		// a complete real ClientHello and then junk where the next flight belongs
		g := make([]byte, 200)
		rng.Read(g)
		return "raw:tls-hello-then-junk", append(append([]byte(nil), clientHello()...), g...)
	case 2:
		h := append([]byte(nil), clientHello()...)
		for k := 0; k < 8; k++ {
			h[5+rng.Intn(len(h)-5)] ^= byte(1 + rng.Intn(255))
		}
		return "raw:tls-hello-corrupted", h
	}
	c, d := garbageRequest(rng, 1, -1, big)
	return "raw:cleartext:" + c, d
}

// garbageRequest builds one piece of request-level garbage. w >= 0 fixes the number of words on the
// request line (the one small structural dimension that is enumerated completely); w < 0 draws the
// class from everything.
func garbageRequest(rng *rand.Rand, pos, w int, big bool) (string, []byte) {
	if w < 0 {
		if rng.Intn(3) == 0 {
			return specialGarbage(rng, pos, gSpecial[rng.Intn(len(gSpecial))], big)
		}
		w = rng.Intn(maxWords + 1)
	}
	return textRequest(rng, pos, w, gSeps[rng.Intn(len(gSeps))], gHdrs[rng.Intn(len(gHdrs))], gEnds[rng.Intn(len(gEnds))], big)
}

// fillGarbage gives every garbage point of the case its payload. slot i of n garbage peers at the same
// point: the first maxWords+1 slots enumerate the word count of the request line, the others are drawn.
func fillGarbage(c *c15Case, domain string, big bool) {
	rng := vcommon.NewRand(c.Seed, "c15garbage-payload")
	base, _ := baseOf(c.Kind)
	perPoint := map[string]int{}
	c.Garbage = make([]string, len(c.Points))
	c.GarbageClass = make([]string, len(c.Points))
	any := false
	total := map[string]int{}
	for _, pt := range c.Points {
		total[pt]++
	}
	for i, pt := range c.Points {
		if !isGarbagePoint(pt) {
			continue
		}
		any = true
		slot := perPoint[pt]
		perPoint[pt]++
		if total[pt] <= maxWords {
			// a lone garbage peer among other peers: drawn from everything
			slot = maxWords + 1 + rng.Intn(64)
		}
		var class string
		var data []byte
		switch pt {
		case ptGarbageRaw:
			if base == "udp" || base == "dns" {
				class, data = datagramGarbage(rng, base, domain, slot+c.Variant)
			} else {
				class, data = rawGarbage(rng, slot+c.Variant, big)
			}
		default:
			pos := 1
			if pt == ptGarbageReq2 {
				pos = 2
			}
			w := -1
			if slot <= maxWords {
				w = slot
			}
			if c.Variant > 0 && slot <= maxWords {
				// thorough: walk through separators x header shapes x line ends for every word count
				v := c.Variant - 1
				class, data = textRequest(rng, pos, w, gSeps[(v+slot)%len(gSeps)], gHdrs[(v/2+slot)%len(gHdrs)], gEnds[v%len(gEnds)], big && v%7 == 0)
			} else if c.Variant > 0 {
				class, data = specialGarbage(rng, pos, gSpecial[(c.Variant-1+slot)%len(gSpecial)], big && c.Variant%7 == 0)
			} else if w >= 0 {
				// the plain line of w words, separated by single blanks; headers and line end drawn
				class, data = textRequest(rng, pos, w, "sp", gHdrs[rng.Intn(len(gHdrs))], gEnds[rng.Intn(len(gEnds))], big)
			} else {
				class, data = garbageRequest(rng, pos, w, big)
			}
		}
		c.Garbage[i] = strconv.Quote(string(data))
		c.GarbageClass[i] = class
	}
	if !any {
		c.Garbage, c.GarbageClass = nil, nil
	}
}

// payloadOf returns the bytes peer i of the case sends.
func payloadOf(c *c15Case, i int) ([]byte, string, error) {
	if i >= len(c.Garbage) || c.Garbage[i] == "" {
		return nil, "", fmt.Errorf("case has no garbage for peer %d", i)
	}
	s, err := strconv.Unquote(c.Garbage[i])
	if err != nil {
		return nil, "", err
	}
	cl := ""
	if i < len(c.GarbageClass) {
		cl = c.GarbageClass[i]
	}
	return []byte(s), cl, nil
}

// classFamily strips the parameters from a garbage class (for the evidence sets).
func classFamily(class string) string {
	f := strings.Split(class, ":")
	if len(f) >= 2 && (f[0] == "text" || f[0] == "dgram" || f[0] == "raw") {
		return f[0] + ":" + f[1]
	}
	return f[0]
}
