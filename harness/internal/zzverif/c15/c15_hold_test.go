// C15, long stalls: the scripted peers stall (for ever, as always), but the good clients arrive only
// after the stalled peers have been there for so long that the server's own clocks have acted on them:
//
//   - dns endpoints: the listener's expiry sweep (once a minute, hard-coded) has retired the sessions of
//     the peers that stopped polling. sdns.ConnectionTimeout (a package variable, 5 min) is lowered for
//     the scenario so that one sweep is enough; sweeps are OBSERVED (verifhook.Count("dns.expiry.pass")),
//     and how many are needed follows from the measured instants (sweep p of a listener created after
//     tStart reads the clock at >= tStart + p minutes);
//   - other endpoints (thorough): the stall lasts longer than the keep-alive timeout of the session
//     multiplexer (30 s), so that the server has given the silent sessions up on its own.
//
// While the stall lasts, good clients keep arriving at intervals (an established client opens further
// logical connections, new clients connect). The verdict is the usual one (stall rule on the good
// clients); time only shapes the workload. When no sweep could be observed and nothing failed, the
// scenario is inconclusive.
package c15

import (
	"time"

	sdns "github.com/bokysan/socketace/v2/internal/streams/dns"
	"github.com/bokysan/socketace/v2/internal/verifhook"
)

const (
	holdDNSPass = "dns-expiry-pass"
	holdSeconds = "seconds"
	passHook    = "dns.expiry.pass"
)

// dnsListenersStarted counts the DNS servers this process has started: the sweep goroutine of a closed
// listener may still report one more pass, which must not be taken for a pass of the current one.
var dnsListenersStarted int

type holdState struct {
	c       *c15Case
	tStart  time.Time
	base    int64
	prior   int
	oldCT   time.Duration
	changed bool
}

func beginHold(c *c15Case) *holdState {
	h := &holdState{c: c, prior: dnsListenersStarted}
	if c.Hold == holdDNSPass && c.DNSConnTimeoutS > 0 {
		h.oldCT, h.changed = sdns.ConnectionTimeout, true
		sdns.ConnectionTimeout = time.Duration(c.DNSConnTimeoutS) * time.Second
	}
	h.base = verifhook.Count(passHook)
	h.tStart = time.Now()
	return h
}

func (h *holdState) end() {
	if h.changed {
		sdns.ConnectionTimeout = h.oldCT
	}
}

// neededPasses: the first sweep that finds every peer which fell silent before tReached stale.
func (h *holdState) neededPasses(tReached time.Time) int {
	ct := time.Duration(h.c.DNSConnTimeoutS) * time.Second
	n := int(tReached.Add(ct).Sub(h.tStart)/time.Minute) + 1
	if n < h.c.HoldN {
		n = h.c.HoldN
	}
	return n + h.prior
}

// wait holds the scenario. mid(i) lets the i-th good client of the waiting time run; it returns false
// when that client failed (reported by the caller): the hold ends at once.
func (h *holdState) wait(tReached time.Time, mid func(i int) bool) (observed bool, passes int64, ok bool) {
	const gap = 12 * time.Second
	need := 0
	var deadline time.Time
	if h.c.Hold == holdDNSPass {
		need = h.neededPasses(tReached)
		deadline = h.tStart.Add(time.Duration(need)*time.Minute + 45*time.Second)
	}
	next := time.Now().Add(gap)
	for i := 0; ; {
		if h.c.Hold == holdDNSPass {
			passes = verifhook.Count(passHook) - h.base
			if passes >= int64(need) {
				return true, passes, true
			}
			if time.Now().After(deadline) {
				// no sweep was reported in time: go on (the good clients decide), the caller knows
				return false, passes, true
			}
		} else if time.Since(tReached) >= time.Duration(h.c.HoldN)*time.Second {
			return true, 0, true
		}
		if time.Now().After(next) {
			if !mid(i) {
				return false, passes, false
			}
			i++
			next = time.Now().Add(gap)
		}
		time.Sleep(200 * time.Millisecond)
	}
}
