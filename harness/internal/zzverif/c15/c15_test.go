// C15: one stalled peer cannot block other peers (DESIGN.md §4 C15).
//
// For every server endpoint kind the real server is started (e2e fixture, server side only), then
// scripted BAD peers connect and stall FOR EVER at one chosen point of the connection set-up each
// (they keep their connection open and never send another byte), and THEN well-behaved REAL clients
// (real client commands with real upstream objects) connect to the same endpoint, open a logical
// connection and move keyed data both ways. As the stalled peers never move again, the verdict does
// not depend on timing: a good client that cannot complete (stall rule) while the bad peers are
// connected is the violation.
package c15

import (
	"bufio"
	"crypto/tls"
	"encoding/binary"
	"encoding/json"
	"fmt"
	"io"
	"net"
	"net/textproto"
	"os"
	"runtime"
	"strings"
	"sync"
	"testing"
	"time"

	"github.com/bokysan/socketace/v2/internal/client/upstream"
	"github.com/bokysan/socketace/v2/internal/socketace"
	"github.com/bokysan/socketace/v2/internal/streams"
	sdns "github.com/bokysan/socketace/v2/internal/streams/dns"
	"github.com/bokysan/socketace/v2/internal/version"
	"github.com/bokysan/socketace/v2/internal/zzverif/e2e"
	"github.com/bokysan/socketace/v2/internal/zzverif/vcommon"
	"github.com/gorilla/websocket"
)

// ---- case descriptors ------------------------------------------------------------------------

type c15Case struct {
	Kind   string     `json:"kind"`
	Order  string     `json:"order"`  // "bad-first": bad peers, then good clients; "good-first": good client A, bad peers, A again + new client B
	Points []string   `json:"points"` // stall point of every bad peer
	Label  string     `json:"label"`  // the point, or "mixed"
	Goods  int        `json:"goods"`  // number of good clients arriving while the bad peers stall
	Sizes  [][2]int64 `json:"sizes"`  // per good logical connection: bytes app->target, target->app
	Seed   int64      `json:"seed"`

	// garbage peers (c15_garbage_test.go): what peer i sends (strconv.Quote'd bytes; "" for a peer that only stalls)
	Garbage      []string `json:"garbage,omitempty"`
	GarbageClass []string `json:"garbage_class,omitempty"`
	Variant      int      `json:"variant,omitempty"` // selects the walk through the garbage grid (thorough)

	// long stalls (c15_hold_test.go): the good clients arrive only after the stalled peers have been
	// there for so long that the server's own clocks have acted on them
	Hold            string `json:"hold,omitempty"`                     // "" | "dns-expiry-pass" | "seconds"
	HoldN           int    `json:"hold_n,omitempty"`                   // passes of the DNS listener's expiry sweep / seconds
	DNSConnTimeoutS int    `json:"dns_connection_timeout_s,omitempty"` // sdns.ConnectionTimeout during the scenario

	// stalled peers that use a resource up (c15_fdlimit_test.go)
	Fault    string `json:"fault,omitempty"`     // "" | "descriptor-exhaustion"
	Pairs    int    `json:"pairs,omitempty"`     // stalled peers the descriptor table has room for (2 descriptors each, +1)
	LeavePct int    `json:"leave_pct,omitempty"` // share of the piled-up peers that leave before the good clients arrive
	// c15_crowd_test.go, fault "dns-session-table-full"
	Extra   int `json:"extra_arrivals,omitempty"` // version requests arriving one by one after the table was seen full
	Leavers int `json:"leavers,omitempty"`        // stalled peers that close their session before the good clients arrive
}

var kinds = []string{"tcp", "unix", "tcp+tls", "tcp+starttls", "ws", "wss", "udp", "dns"}

// more of the same in the thorough tier: the remaining transport x security combinations
var moreKinds = []string{"unix+tls", "unix+starttls", "ws+starttls", "udp+starttls", "dns+starttls"}

// Stall points.
const (
	ptConnect    = "connect"                // transport connected, not one byte sent (dns: tunnel session allocated, never written to)
	ptTLSHello   = "tls-hello"              // first 20 bytes of a real TLS ClientHello record
	ptHTTPReq    = "http-request"           // inside the HTTP request line of the websocket upgrade
	ptWSOpen     = "ws-open"                // websocket upgrade completed, no socketace byte sent
	ptFirstLine  = "first-line"             // "X-SOCKETACE / HT"
	ptBetween    = "between-requests"       // complete announce request sent, 200 read, nothing more
	ptSTLS101    = "starttls-101"           // announce, upgrade with Security: StartTLS, 101 read, nothing more
	ptSTLSHello  = "starttls-hello"         // ... and then the first 20 bytes of a ClientHello
	ptUpSilent   = "upgraded-silent"        // complete handshake (101 read), silence
	ptUpGarbage  = "upgraded-garbage"       // complete handshake, 64 bytes that are no smux frame, silence
	ptDNSVersion = "dns-version-only"       // dns: query-type probe + version request only (the request that allocates the session the server will Accept), then silence: not one packet request
	ptDNSOptions = "dns-options-only"       // dns: version + every option / probe command of the tunnel negotiation, but no packet request and no poll loop, then silence
	ptDNSReqGone = "dns-request-then-gone"  // dns: tunnel up, complete announce request uploaded, then the peer stops polling for good: the server's 200 is never fetched / acknowledged
	ptDNSUpGone  = "dns-upgraded-then-gone" // dns: complete socketace handshake (101 read), then the peer stops polling for good: the server's next keep-alive frame is never fetched
	ptUpHalf     = "upgraded-half-frame"    // complete handshake, 5 of the 8 bytes of a valid smux frame header, silence
)

// baseOf splits an endpoint kind into transport and security ("", "tls" = TLS endpoint, "starttls").
func baseOf(kind string) (base, sec string) {
	parts := strings.SplitN(kind, "+", 2)
	base = parts[0]
	if len(parts) > 1 {
		sec = parts[1]
	}
	if base == "wss" {
		sec = "tls"
	}
	return
}

func pointsOf(kind string) []string {
	base, sec := baseOf(kind)
	var pts []string
	if base != "udp" {
		// (a KCP session exists on the server only once its first datagram has arrived)
		pts = append(pts, ptConnect)
	}
	if base == "dns" {
		pts = append(pts, ptDNSVersion, ptDNSOptions, ptDNSReqGone, ptDNSUpGone)
	}
	if sec == "tls" {
		pts = append(pts, ptTLSHello)
	}
	if base == "ws" || base == "wss" {
		pts = append(pts, ptHTTPReq, ptWSOpen)
	}
	pts = append(pts, ptFirstLine, ptBetween)
	if sec == "starttls" {
		pts = append(pts, ptSTLS101, ptSTLSHello)
	}
	return append(pts, ptUpSilent, ptUpGarbage, ptUpHalf)
}

var sizes = []int64{1, 2, 100, 4095, 4096, 4097, 32768, 65535, 65536}

// ---- bad peers -------------------------------------------------------------------------------

type badPeer struct {
	Point   string
	raw     net.Conn // the socket this peer owns (nil for KCP and DNS peers)
	conn    net.Conn // the carrier stream the socketace handshake is spoken on
	rd      *bufio.Reader
	dns     *sdns.ClientDnsConnection
	keep    []interface{} // everything else that must stay referenced
	reached bool
	step    string // last completed step (diagnostics)
	err     string
	mu      sync.Mutex

	payload []byte // garbage peers: what it sends
	class   string
	answer  string // garbage peers: what came back (recorded only)
	ansDone bool   // the server ended the connection (or the read failed)
}

func (b *badPeer) setStep(s string) {
	b.mu.Lock()
	b.step = s
	b.mu.Unlock()
	e2e.Bump(1)
}

func (b *badPeer) status() (reached bool, step, err string) {
	b.mu.Lock()
	defer b.mu.Unlock()
	return b.reached, b.step, b.err
}

func (b *badPeer) close() {
	if b.dns != nil {
		// do not run the tunnel's polite close (it waits for answers): drop the socket
		b.dns.Communicator.Close()
	}
	if b.conn != nil && b.dns == nil {
		c := b.conn
		go c.Close() // a KCP / websocket close may want to write: never wait for it
	}
	if b.raw != nil {
		b.raw.Close()
	}
}

func hostOf(p *e2e.Pair) string {
	h := p.ServerURL[strings.Index(p.ServerURL, "://")+3:]
	if i := strings.Index(h, "@"); i >= 0 {
		h = h[i+1:]
	}
	return h
}

var helloOnce sync.Once
var helloBytes []byte

// captureConn records what is written to it and never delivers anything.
type captureConn struct {
	mu   sync.Mutex
	buf  []byte
	done chan struct{}
	once sync.Once
}

func (c *captureConn) Read(b []byte) (int, error) { <-c.done; return 0, io.EOF }
func (c *captureConn) Write(b []byte) (int, error) {
	c.mu.Lock()
	c.buf = append(c.buf, b...)
	c.mu.Unlock()
	return len(b), nil
}
func (c *captureConn) Close() error                     { c.once.Do(func() { close(c.done) }); return nil }
func (c *captureConn) LocalAddr() net.Addr              { return &net.TCPAddr{} }
func (c *captureConn) RemoteAddr() net.Addr             { return &net.TCPAddr{} }
func (c *captureConn) SetDeadline(time.Time) error      { return nil }
func (c *captureConn) SetReadDeadline(time.Time) error  { return nil }
func (c *captureConn) SetWriteDeadline(time.Time) error { return nil }

// clientHello returns the record a real crypto/tls client sends first.
func clientHello() []byte {
	helloOnce.Do(func() {
		cc := &captureConn{done: make(chan struct{})}
		t := tls.Client(cc, &tls.Config{InsecureSkipVerify: true, ServerName: "localhost"})
		hs := e2e.Go(func() { t.Handshake() })
		for i := 0; i < 2000; i++ {
			cc.mu.Lock()
			n := len(cc.buf)
			cc.mu.Unlock()
			if n > 0 {
				break
			}
			time.Sleep(time.Millisecond)
		}
		cc.Close()
		<-hs
		cc.mu.Lock()
		helloBytes = append([]byte(nil), cc.buf...)
		cc.mu.Unlock()
	})
	return helloBytes
}

func rawDial(p *e2e.Pair, kind string) (net.Conn, error) {
	if base, _ := baseOf(kind); base == "unix" {
		return net.Dial("unix", hostOf(p))
	}
	return net.Dial("tcp", hostOf(p))
}

// carrier establishes the stream on which a client of this endpoint kind speaks the socketace handshake.
func (b *badPeer) carrier(p *e2e.Pair, kind string) error {
	base, sec := baseOf(kind)
	if (base == "tcp" || base == "unix") && sec == "tls" {
		base = "sock+tls"
	}
	switch base {
	case "tcp", "unix":
		c, err := rawDial(p, kind)
		if err != nil {
			return err
		}
		b.raw, b.conn = c, c
	case "sock+tls":
		c, err := rawDial(p, kind)
		if err != nil {
			return err
		}
		b.raw = c
		t := tls.Client(c, &tls.Config{InsecureSkipVerify: true})
		if err := t.Handshake(); err != nil {
			return fmt.Errorf("tls handshake: %v", err)
		}
		b.conn = t
	case "ws", "wss":
		d := &websocket.Dialer{
			NetDial: func(network, addr string) (net.Conn, error) {
				c, err := net.Dial(network, addr)
				if err == nil {
					b.raw = c
				}
				return c, err
			},
			TLSClientConfig: &tls.Config{InsecureSkipVerify: true},
		}
		sch := "ws"
		if base == "wss" {
			sch = "wss"
		}
		c, _, err := d.Dial(sch+"://"+hostOf(p)+"/ws/all", nil)
		if err != nil {
			return fmt.Errorf("websocket dial: %v", err)
		}
		b.keep = append(b.keep, c)
		b.conn = streams.NewWebsocketTunnelConnection(c)
	case "udp":
		a, err := net.ResolveUDPAddr("udp", hostOf(p))
		if err != nil {
			return err
		}
		c, err := upstream.DefaultCreateConnection(a, nil)
		if err != nil {
			return err
		}
		b.conn = c
	case "dns":
		dc, err := b.dnsDial(p)
		if err != nil {
			return err
		}
		if err := dc.Handshake(); err != nil {
			return fmt.Errorf("dns tunnel handshake: %v", err)
		}
		b.conn = dc
	default:
		return fmt.Errorf("unknown kind %s", kind)
	}
	b.rd = bufio.NewReader(b.conn)
	b.setStep("carrier")
	return nil
}

// dnsDial creates the real tunnel client object over the real UDP communicator (nothing is sent yet).
func (b *badPeer) dnsDial(p *e2e.Pair) (*sdns.ClientDnsConnection, error) {
	a, err := net.ResolveUDPAddr("udp", hostOf(p))
	if err != nil {
		return nil, err
	}
	comm, err := sdns.NewNetConnectionClientCommunicator(&sdns.ClientConfig{Servers: sdns.AddressList{a}})
	if err != nil {
		return nil, err
	}
	dc, err := sdns.NewClientDnsConnection(p.Opt.Domain, comm)
	if err != nil {
		return nil, err
	}
	b.dns = dc
	return dc, nil
}

// dnsPartial runs the first steps of ClientDnsConnection.Handshake() in its order and stops before the
// packet exchange (no packet request is ever sent, the poll loop is never started).
func (b *badPeer) dnsPartial(p *e2e.Pair, options bool) error {
	dc, err := b.dnsDial(p)
	if err != nil {
		return err
	}
	dc.Serializer.UseEdns0 = false
	if err := dc.AutoDetectQueryType(); err != nil {
		return fmt.Errorf("dns query type detection: %v", err)
	}
	b.setStep("dns-query-type")
	if err := dc.VersionHandshake(); err != nil {
		return fmt.Errorf("dns version handshake: %v", err)
	}
	b.setStep("dns-version")
	if !options {
		return nil
	}
	dc.AutodetectEdns0Extension()
	dc.AutodetectEncodingUpstream()
	if err := dc.SetEncodingUpstream(); err != nil {
		return fmt.Errorf("dns set upstream encoding: %v", err)
	}
	b.setStep("dns-upstream-encoding")
	dc.AutodetectEncodingDowntream()
	if err := dc.SetEncodingDownstream(); err != nil {
		return fmt.Errorf("dns set downstream encoding: %v", err)
	}
	b.setStep("dns-downstream-encoding")
	dc.AutodetectLazyMode()
	f, err := dc.AutodetectFragmentSize()
	if err != nil {
		return fmt.Errorf("dns fragment size detection: %v", err)
	}
	if err := dc.SwitchFragmentSize(f); err != nil {
		return fmt.Errorf("dns fragment size switch: %v", err)
	}
	b.setStep("dns-fragment-size")
	return nil
}

func (b *badPeer) announce() error {
	req := &socketace.Request{Method: socketace.RequestMethod, URL: "/", Headers: make(textproto.MIMEHeader)}
	req.Headers.Set(socketace.AcceptsProtocolVersion, version.ProtocolVersion)
	req.Headers.Set(socketace.UserAgent, "socketace/"+version.AppVersion())
	if err := req.Write(b.conn); err != nil {
		return err
	}
	b.setStep("announce-sent")
	resp := &socketace.Response{}
	if err := resp.Read(b.rd); err != nil {
		return fmt.Errorf("reading the answer to the announce: %v", err)
	}
	if resp.StatusCode != 200 {
		return fmt.Errorf("announce answered %d", resp.StatusCode)
	}
	b.setStep("200-read")
	return nil
}

func (b *badPeer) upgrade(startTLS bool) error {
	req := &socketace.Request{Method: "GET", URL: "/", Headers: make(textproto.MIMEHeader)}
	req.Headers.Set(socketace.UserAgent, "socketace/"+version.AppVersion())
	req.Headers.Set("Upgrade", "socketace/"+version.ProtocolVersion)
	req.Headers.Set("Connection", "upgrade")
	if startTLS {
		req.Headers.Set("Security", socketace.CapabilityStartTls)
	}
	if err := req.Write(b.conn); err != nil {
		return err
	}
	b.setStep("upgrade-sent")
	resp := &socketace.Response{}
	if err := resp.Read(b.rd); err != nil {
		return fmt.Errorf("reading the answer to the upgrade: %v", err)
	}
	if resp.StatusCode != 101 {
		return fmt.Errorf("upgrade answered %d", resp.StatusCode)
	}
	b.setStep("101-read")
	return nil
}

// run drives the peer to its stall point. Whatever it returns, the peer never sends another byte.
func (b *badPeer) run(p *e2e.Pair, kind string, seed int64) error {
	write := func(c net.Conn, data []byte) error {
		_, err := c.Write(data)
		return err
	}
	if isGarbagePoint(b.Point) {
		return b.runGarbage(p, kind)
	}
	switch b.Point {
	case ptDNSVersion:
		return b.dnsPartial(p, false)
	case ptDNSOptions:
		return b.dnsPartial(p, true)
	case ptConnect:
		if base, _ := baseOf(kind); base == "dns" {
			return b.carrier(p, kind)
		}
		c, err := rawDial(p, kind)
		b.raw = c
		return err
	case ptTLSHello:
		c, err := rawDial(p, kind)
		if err != nil {
			return err
		}
		b.raw = c
		return write(c, clientHello()[:20])
	case ptHTTPReq:
		c, err := rawDial(p, kind)
		if err != nil {
			return err
		}
		b.raw = c
		var w net.Conn = c
		if base, _ := baseOf(kind); base == "wss" {
			t := tls.Client(c, &tls.Config{InsecureSkipVerify: true})
			if err := t.Handshake(); err != nil {
				return fmt.Errorf("tls handshake: %v", err)
			}
			b.keep = append(b.keep, t)
			w = t
		}
		return write(w, []byte("GET /ws/all HT"))
	}
	if err := b.carrier(p, kind); err != nil {
		return err
	}
	switch b.Point {
	case ptWSOpen:
		return nil
	case ptFirstLine:
		return write(b.conn, []byte("X-SOCKETACE / HT"))
	}
	if b.Point == ptDNSReqGone {
		req := &socketace.Request{Method: socketace.RequestMethod, URL: "/", Headers: make(textproto.MIMEHeader)}
		req.Headers.Set(socketace.AcceptsProtocolVersion, version.ProtocolVersion)
		req.Headers.Set(socketace.UserAgent, "socketace/"+version.AppVersion())
		err := req.Write(b.conn)
		b.dns.Communicator.Close() // no poll, no acknowledgement, no close request from now on
		return err
	}
	if err := b.announce(); err != nil {
		return err
	}
	switch b.Point {
	case ptBetween:
		return nil
	case ptSTLS101, ptSTLSHello:
		if err := b.upgrade(true); err != nil {
			return err
		}
		if b.Point == ptSTLSHello {
			return write(b.conn, clientHello()[:20])
		}
		return nil
	}
	if err := b.upgrade(false); err != nil {
		return err
	}
	if b.Point == ptDNSUpGone {
		b.dns.Communicator.Close()
		return nil
	}
	if b.Point == ptUpHalf {
		return write(b.conn, []byte{1, 2, 0x10, 0x00, 3}) // version 1, cmdPSH, length 16, first byte of the stream id
	}
	if b.Point == ptUpGarbage {
		g := make([]byte, 64)
		vcommon.NewRand(seed, "c15garbage").Read(g)
		g[0] = 0x7f // smux knows protocol versions 1 and 2 only
		if err := write(b.conn, g); err != nil {
			// the server may drop the session on the first garbage bytes while the rest is still being
			// written (DNS tunnel: several exchanges): the peer has done what it will ever do
			b.setStep("garbage-write-ended-early: " + e2e.Clip(err.Error(), 80))
		}
		return nil
	}
	return nil
}

// runGarbage sends the peer's garbage at its layer and then only listens (what comes back is recorded).
func (b *badPeer) runGarbage(p *e2e.Pair, kind string) error {
	base, _ := baseOf(kind)
	send := func(w io.Writer) {
		if strings.HasPrefix(b.class, "dgrams:") {
			n, err := sprayDatagrams(w, b.payload)
			if err != nil {
				b.setStep(fmt.Sprintf("garbage-write-ended-early after %d datagrams: %s", n, e2e.Clip(err.Error(), 80)))
				return
			}
			b.setStep(fmt.Sprintf("garbage-sent (%d datagrams)", n))
			return
		}
		if _, err := w.Write(b.payload); err != nil {
			// the server may drop the connection on the first bytes while the rest is still being
			// written: the peer has done what it will ever do
			b.setStep("garbage-write-ended-early: " + e2e.Clip(err.Error(), 80))
			return
		}
		b.setStep("garbage-sent")
	}
	switch b.Point {
	case ptGarbageRaw:
		var c net.Conn
		var err error
		if base == "udp" || base == "dns" {
			c, err = net.Dial("udp", hostOf(p))
		} else {
			c, err = rawDial(p, kind)
		}
		if err != nil {
			return err
		}
		b.raw = c
		send(c)
		b.listen(c, nil)
		return nil
	case ptGarbageHTTP:
		c, err := rawDial(p, kind)
		if err != nil {
			return err
		}
		b.raw = c
		var w net.Conn = c
		if base == "wss" {
			t := tls.Client(c, &tls.Config{InsecureSkipVerify: true})
			if err := t.Handshake(); err != nil {
				return fmt.Errorf("tls handshake: %v", err)
			}
			b.keep = append(b.keep, t)
			w = t
		}
		send(w)
		b.listen(w, nil)
		return nil
	}
	if err := b.carrier(p, kind); err != nil {
		return err
	}
	if b.Point == ptGarbageReq2 {
		if err := b.announce(); err != nil {
			return err
		}
	}
	send(b.conn)
	b.listen(b.rd, b.rd)
	return nil
}

// listen watches what the server sends to a garbage peer: a parsable socketace answer (parse != nil),
// any bytes, the end of the connection. Recorded only.
func (b *badPeer) listen(r io.Reader, parse *bufio.Reader) {
	set := func(f func()) {
		b.mu.Lock()
		f()
		b.mu.Unlock()
	}
	go func() {
		if parse != nil {
			resp := &socketace.Response{}
			if err := resp.Read(parse); err == nil {
				set(func() { b.answer = fmt.Sprintf("status-%d", resp.StatusCode) })
			}
		}
		buf := make([]byte, 4096)
		n := 0
		for {
			k, err := r.Read(buf)
			n += k
			if k > 0 && parse == nil {
				set(func() { b.answer = "bytes" })
			}
			if err != nil {
				break
			}
		}
		set(func() {
			if b.answer == "" {
				b.answer = "none"
			}
			b.ansDone = true
		})
	}()
}

// state looks at the peer's own socket at the end: still open (a zero-wait read times out) or
// closed by the server (end-of-stream / reset). Recorded only, never judged.
func (b *badPeer) state() string {
	if isGarbagePoint(b.Point) {
		// the peer's own reader has been watching the connection all the time
		b.mu.Lock()
		defer b.mu.Unlock()
		st := "open"
		if b.ansDone {
			st = "closed-by-server"
		}
		if b.dns == nil && b.raw == nil {
			st = "open(kcp:no-close-signal)"
		}
		return st + "(answer:" + b.answer + ")"
	}
	if b.dns != nil {
		if b.dns.Closed() {
			return "closed"
		}
		return "open"
	}
	if b.raw == nil {
		return "open(kcp:no-close-signal)"
	}
	buf := make([]byte, 4096)
	got := 0
	for i := 0; i < 64; i++ {
		b.raw.SetReadDeadline(time.Now().Add(20 * time.Millisecond))
		n, err := b.raw.Read(buf)
		got += n
		if err == nil {
			continue
		}
		if ne, ok := err.(net.Error); ok && ne.Timeout() {
			if got > 0 {
				return "open(server-sent-bytes)"
			}
			return "open"
		}
		return "closed-by-server"
	}
	return "open(server-keeps-sending)"
}

// ---- good clients ----------------------------------------------------------------------------

type goodOutcome struct {
	ok       bool
	inconcl  string
	stage    string // where it failed: dial, blocked, failed, transfer
	kind     string // failure kind
	info     map[string]interface{}
	verified int64
}

var tagSeq uint64
var tagMu sync.Mutex

func nextTag() uint64 {
	tagMu.Lock()
	defer tagMu.Unlock()
	tagSeq++
	return 0xC15000000000 + tagSeq
}

// acceptLoops extracts from a goroutine dump the goroutines that are (or carry) a server accept loop.
func acceptLoops(stacks string) string {
	var out []string
	for _, g := range strings.Split(stacks, "\n\n") {
		if strings.Contains(g, ").acceptConnection") || strings.Contains(g, "ServerDnsListener).Accept") ||
			(strings.Contains(g, "net/http.(*Server).Serve") && strings.Contains(g, "Accept")) {
			out = append(out, g)
		}
	}
	return e2e.Clip(strings.Join(out, "\n\n"), 12000)
}

// oneLogical opens one logical connection through the real client ec and moves keyed data both ways.
func oneLogical(p *e2e.Pair, ec *e2e.ExtraClient, sz [2]int64, key uint64) goodOutcome {
	app, err := ec.Dial("echo")
	if err != nil {
		return goodOutcome{stage: "dial", kind: "listener-dial-failed", info: map[string]interface{}{"err": err.Error()}}
	}
	defer app.Close()
	tag := nextTag()
	var hdr [8]byte
	binary.BigEndian.PutUint64(hdr[:], tag)
	if _, err := app.Write(hdr[:]); err != nil {
		return goodOutcome{stage: "dial", kind: "listener-write-failed", info: map[string]interface{}{"err": err.Error()}}
	}
	// The client closes the application's socket when it cannot reach the server: watch for that
	// while waiting for the target to be connected.
	abort := make(chan struct{})
	var earlyN int
	var earlyErr error
	watcher := e2e.Go(func() {
		one := make([]byte, 1)
		earlyN, earlyErr = app.Read(one)
		if ne, ok := earlyErr.(net.Error); ok && ne.Timeout() {
			return
		}
		close(abort)
	})
	tgt, o, aborted := p.Targets["echo"].NextTaggedOr(tag, abort)
	switch {
	case o == e2e.Inconclusive:
		return goodOutcome{inconcl: "process busy while a good client waited for its logical connection"}
	case o == e2e.Stalled:
		st := e2e.Stacks()
		return goodOutcome{stage: "blocked", kind: "stalled", info: map[string]interface{}{
			"what":           "the good client's logical connection never reached the target: no progress for the stall window while every scripted peer waits for ever",
			"connect_errors": ec.Up.ConnectErrors(), "connect_calls_returned": ec.Up.Connects,
			"accept_loop": acceptLoops(st), "goroutines": e2e.Clip(st, 60000)}}
	case aborted:
		errs := ec.Up.ConnectErrors()
		return goodOutcome{stage: "failed", kind: "closed-before-target", info: map[string]interface{}{
			"what": "the client gave the application's connection up before the target was reached", "early_bytes": earlyN,
			"early_err": fmt.Sprint(earlyErr), "connect_errors": errs}}
	}
	defer tgt.Close()
	app.SetReadDeadline(time.Now())
	<-watcher
	app.SetReadDeadline(time.Time{})
	if earlyN > 0 {
		return goodOutcome{stage: "transfer", kind: "t2c:bytes-nobody-sent", info: map[string]interface{}{"n": earlyN}}
	}
	if earlyErr != nil {
		if ne, ok := earlyErr.(net.Error); !ok || !ne.Timeout() {
			return goodOutcome{stage: "failed", kind: "closed-after-target", info: map[string]interface{}{"early_err": fmt.Sprint(earlyErr), "connect_errors": ec.Up.ConnectErrors()}}
		}
	}
	ab := &e2e.Stream{Key: key*4 + 1, Len: sz[0]}
	ba := &e2e.Stream{Key: key*4 + 2, Len: sz[1]}
	f := e2e.Duplex(app, tgt, ab, ba, "c2t", "t2c", []uint64{ab.Key, ba.Key})
	if f == nil {
		return goodOutcome{ok: true, verified: sz[0] + sz[1]}
	}
	if f.Inconclusive {
		return goodOutcome{inconcl: f.Kind}
	}
	if f.Info == nil {
		f.Info = map[string]interface{}{}
	}
	if strings.Contains(f.Kind, "stalled") {
		f.Info["accept_loop"] = acceptLoops(e2e.Stacks())
	}
	return goodOutcome{stage: "transfer", kind: f.Kind, info: f.Info}
}

// ---- one scenario ----------------------------------------------------------------------------

type runState struct {
	rec     *vcommon.Rec
	stalls  map[string]int // kind -> scenarios that cost a stall window
	abandon string         // set when this process can no longer run scenarios reliably (a clean-up that never finished)
}

func startServer(c *c15Case) (*e2e.Pair, error) {
	return e2e.Start(e2e.Options{Carrier: c.Kind, NoClient: true, Channels: []e2e.ChanSpec{{Name: "echo", Tagged: true}}})
}

func caseKey(c *c15Case) string {
	return fmt.Sprintf("%s/%s/%s/%d/%v/%s/%s%d", c.Kind, c.Order, strings.Join(c.Points, ","), c.Goods, c.Sizes, strings.Join(c.GarbageClass, ","), c.Hold+c.Fault, c.HoldN+c.Pairs*100+c.LeavePct+c.Extra*100000+c.Leavers*1000000)
}

// runScenario returns true when the scenario cost a stall window (budget control).
func (rs *runState) runScenario(c *c15Case) (stalled bool) {
	rec := rs.rec
	rec.Mark(c)
	var hs *holdState
	if c.Hold != "" {
		hs = beginHold(c)
		defer hs.end() // runs after the clean-up below
	}
	p, err := startServer(c)
	if err != nil {
		rec.Violation(c.Kind+":setup-failed", c, err.Error())
		return false
	}
	if base, _ := baseOf(c.Kind); base == "dns" {
		dnsListenersStarted++
	}
	var bads []*badPeer
	var goods []*e2e.ExtraClient
	violBefore := rec.ViolationCount()
	defer func() {
		// the clean-up runs the server's and the clients' own shutdown code: bounded, so that a server
		// that is wedged (which the scenario has reported by then) cannot hold the whole child
		done := e2e.Go(func() {
			for _, b := range bads {
				b.close()
			}
			for _, g := range goods {
				g.Close()
			}
			p.Close()
		})
		if e2e.WaitW(done, 3*e2e.StallWindow()) != e2e.Done {
			rs.abandon = "the clean-up of a scenario did not finish"
			rec.Note(rs.abandon, map[string]interface{}{"case": c, "goroutines": e2e.Clip(e2e.Stacks(), 60000)})
			if rec.ViolationCount() == violBefore {
				rec.Inconclusive("the clean-up of a scenario (server and client shutdown) did not finish", c)
			}
		}
		runtime.KeepAlive(bads)
	}()

	sigBlocked := c.Kind + ":blocked-by-peer-stalled:" + c.Label
	sizeOf := func(i int) [2]int64 { return c.Sizes[i%len(c.Sizes)] }
	nLogical := 0
	var verified int64

	// report turns the outcome of one good logical connection into the record; true = go on
	report := func(o goodOutcome, who string, withBad bool) bool {
		label := c.Label
		if !withBad {
			label = "no-bad-peers"
		}
		switch {
		case o.ok:
			nLogical++
			verified += o.verified
			return true
		case o.inconcl != "":
			rec.Inconclusive(o.inconcl, c)
			return false
		}
		o.info["good_client"] = who
		o.info["bad_peers"] = describe(bads)
		switch o.stage {
		case "blocked":
			stalled = true
			if withBad {
				rec.Violation(sigBlocked, c, o.info)
			} else {
				rec.Violation(c.Kind+":good-client-stalled:no-bad-peers", c, o.info)
			}
		case "failed", "dial":
			rec.Violation(c.Kind+":good-client-failed:"+label, c, o.info)
		default:
			if strings.Contains(o.kind, "stalled") {
				stalled = true
			}
			rec.Violation(c.Kind+":good-client-transfer:"+o.kind+":"+label, c, o.info)
		}
		return false
	}

	var first *e2e.ExtraClient
	if c.Order == "good-first" {
		ec, err := p.NewClient("a")
		if err != nil {
			rec.Violation(c.Kind+":setup-failed", c, err.Error())
			return
		}
		goods = append(goods, ec)
		first = ec
		if !report(oneLogical(p, ec, sizeOf(0), uint64(c.Seed)*16), "A (before any bad peer)", false) {
			rec.Case(caseKey(c), true)
			return
		}
	}

	// the bad peers go to their stall points (concurrently; each one is independent of the others
	// on a server that serves peers independently)
	for i, pt := range c.Points {
		b := &badPeer{Point: pt}
		if isGarbagePoint(pt) {
			var err error
			if b.payload, b.class, err = payloadOf(c, i); err != nil {
				rec.Violation(c.Kind+":setup-failed", c, "case descriptor: "+err.Error())
				return
			}
		}
		bads = append(bads, b)
	}
	var wg sync.WaitGroup
	for i, b := range bads {
		wg.Add(1)
		go func(i int, b *badPeer) {
			defer wg.Done()
			err := b.run(p, c.Kind, c.Seed+int64(i))
			b.mu.Lock()
			if err != nil {
				b.err = err.Error()
			} else {
				b.reached = true
			}
			b.mu.Unlock()
			e2e.Bump(1)
		}(i, b)
	}
	switch e2e.Wait(e2e.Go(wg.Wait)) {
	case e2e.Inconclusive:
		rec.Inconclusive("process busy while the scripted peers went to their stall points", c)
		return
	case e2e.Stalled:
		// A scripted peer is a correct client up to its stall point. If it gets no answer to a complete,
		// valid request while the only other peers of the server are stalled ones, it is itself
		// blocked by them.
		stalled = true
		st := e2e.Stacks()
		rec.Violation(sigBlocked, c, map[string]interface{}{
			"what":      "a scripted peer never got the server's answer it was entitled to (on its way to its own stall point) while the other scripted peers stall",
			"bad_peers": describe(bads), "accept_loop": acceptLoops(st), "goroutines": e2e.Clip(st, 60000)})
		rec.Case(caseKey(c), true)
		return
	}
	for _, b := range bads {
		if ok, step, e := b.status(); !ok {
			// refused / reset / unexpected answer on the way to the stall point: the scenario was not set up
			rec.Violation(c.Kind+":scripted-peer-rejected:"+b.Point, c, map[string]interface{}{"step": step, "err": e, "bad_peers": describe(bads)})
			rec.Case(caseKey(c), true)
			return
		}
	}
	// Datagram carriers hand a peer's first datagram to the server asynchronously: give it a moment
	// so that the stalled peers really are there first. (Ordering only; no verdict depends on it.)
	time.Sleep(250 * time.Millisecond)

	type job struct {
		ec  *e2e.ExtraClient
		who string
		idx int
	}
	var jobs []job
	nextIdx := 1
	heldPasses, heldObserved := int64(0), true
	if hs != nil {
		// the stalled peers stay where they are while the server's clocks run; good clients keep coming
		tReached := time.Now()
		mid := func(i int) bool {
			ec, who := first, "A (another logical connection on its existing session, while the stall lasts)"
			if ec == nil || i%2 == 1 {
				var err error
				if ec, err = p.NewClient(fmt.Sprintf("h%d", i)); err != nil {
					rec.Violation(c.Kind+":setup-failed", c, err.Error())
					return false
				}
				goods = append(goods, ec)
				who = fmt.Sprintf("new client arriving while the stall lasts (#%d)", i)
			}
			idx := nextIdx
			nextIdx++
			return report(oneLogical(p, ec, sizeOf(idx), uint64(c.Seed)*16+uint64(idx)), who, true)
		}
		var ok bool
		heldObserved, heldPasses, ok = hs.wait(tReached, mid)
		rec.Stat("seconds_held", int64(time.Since(tReached)/time.Second))
		if !ok {
			rec.Case(caseKey(c), true)
			return
		}
	}

	// the good clients arrive, all at once
	if first != nil {
		jobs = append(jobs, job{first, "A (second logical connection on its existing session)", nextIdx})
		nextIdx++
	}
	for i := 0; i < c.Goods; i++ {
		ec, err := p.NewClient(fmt.Sprintf("g%d", i))
		if err != nil {
			rec.Violation(c.Kind+":setup-failed", c, err.Error())
			return
		}
		goods = append(goods, ec)
		jobs = append(jobs, job{ec, fmt.Sprintf("new client %d", i), nextIdx})
		nextIdx++
	}
	outs := make([]goodOutcome, len(jobs))
	var gw sync.WaitGroup
	for i, j := range jobs {
		gw.Add(1)
		go func(i int, j job) {
			defer gw.Done()
			outs[i] = oneLogical(p, j.ec, sizeOf(j.idx), uint64(c.Seed)*16+uint64(j.idx))
		}(i, j)
	}
	gw.Wait() // every wait inside is bounded by the stall rule
	allOK := true
	for i, o := range outs {
		if !report(o, jobs[i].who, true) {
			allOK = false
		}
	}
	// the bad peers must still be there (or have been dropped by the server on its own): recorded
	open, closedN := 0, 0
	for _, b := range bads {
		s := b.state()
		rec.Seen("bad-peer-state-at-end", c.Kind+"|"+b.Point+"|"+s)
		if isGarbagePoint(b.Point) {
			rec.Seen("garbage(kind,layer,class)->server's reaction", c.Kind+"|"+b.Point+"|"+classFamily(b.class)+"|"+s)
			rec.Seen("garbage-class", b.Point+"|"+b.class)
			rec.Stat("garbage_peers", 1)
			rec.Stat("garbage_bytes_sent", int64(len(b.payload)))
		}
		if strings.HasPrefix(s, "open") {
			open++
		} else {
			closedN++
		}
	}
	rec.Case(caseKey(c), true)
	if allOK && hs != nil && !heldObserved {
		// nothing failed, but the server's clock was not seen to act on the stalled peers: not the scenario that was meant
		rec.Inconclusive("long stall: no expiry sweep of the DNS listener could be observed in time", c)
		return
	}
	if allOK && hs != nil {
		rec.Stat("long_stall_scenarios_held", 1)
		rec.Stat("long_stall:expiry_sweeps_observed_before_the_last_good_clients", heldPasses)
		rec.Seen("long-stall(kind,hold,label)", c.Kind+"|"+c.Hold+"|"+c.Label)
	}
	if allOK {
		rec.Stat("scenarios_held", 1)
		rec.Stat("scenarios_held:"+c.Kind, 1)
		rec.Stat("good_logical_connections_completed", int64(nLogical))
		rec.Stat("good_logical_connections_completed:"+c.Kind, int64(nLogical))
		rec.Stat("bytes_verified", verified)
		rec.Stat("bad_peers_stalled", int64(len(bads)))
		rec.Stat("bad_peers_still_open_at_end", int64(open))
		rec.Stat("bad_peers_closed_by_server_at_end", int64(closedN))
		rec.StatMax("bad_peers_at_once", int64(len(bads)))
		for _, pt := range c.Points {
			rec.Seen("tuple(kind,point,multiplicity)", fmt.Sprintf("%s|%s|%d", c.Kind, pt, len(c.Points)))
			rec.Seen("tuple(kind,point)", c.Kind+"|"+pt)
		}
		rec.Seen("tuple(kind,order,label)", c.Kind+"|"+c.Order+"|"+c.Label)
		rec.Sample(map[string]interface{}{"case": c, "good_logical_connections": nLogical, "bytes_verified": verified,
			"bad_peers_open_at_end": open, "bad_peers_closed_by_server": closedN})
	}
	return
}

func describe(bads []*badPeer) []string {
	var out []string
	for i, b := range bads {
		ok, step, e := b.status()
		s := fmt.Sprintf("#%d point=%s reached=%v last-step=%s", i, b.Point, ok, step)
		if b.class != "" {
			s += fmt.Sprintf(" garbage=%s (%d bytes: %s)", b.class, len(b.payload), e2e.Clip(fmt.Sprintf("%q", b.payload), 120))
		}
		if e != "" {
			s += " err=" + e
		}
		out = append(out, s)
	}
	return out
}

// ---- case list -------------------------------------------------------------------------------

const tunnelDomain = "t.example.org" // the fixture's default

func buildCases(rec *vcommon.Rec, kind string) []*c15Case {
	rng := vcommon.NewRand(rec.Seed(), "c15/"+kind)
	pts := pointsOf(kind)
	gpts := garbagePointsOf(kind)
	allPts := append(append([]string(nil), pts...), gpts...)
	base, _ := baseOf(kind)
	big := rec.Thorough() && base != "dns" // (the DNS tunnel moves ~100 bytes per query)
	var out []*c15Case
	pickSizes := func(n int) [][2]int64 {
		var s [][2]int64
		for i := 0; i < n; i++ {
			s = append(s, [2]int64{sizes[rng.Intn(len(sizes))], sizes[rng.Intn(len(sizes))]})
		}
		return s
	}
	addV := func(order, label string, points []string, goods, variant int) {
		c := &c15Case{Kind: kind, Order: order, Points: points, Label: label, Goods: goods, Sizes: pickSizes(goods + 2),
			Seed: rec.Seed()*1000000 + int64(len(out)), Variant: variant}
		fillGarbage(c, tunnelDomain, big)
		out = append(out, c)
	}
	add := func(order, label string, points []string, goods int) { addV(order, label, points, goods, 0) }
	rep := func(pt string, k int) []string {
		var s []string
		for i := 0; i < k; i++ {
			s = append(s, pt)
		}
		return s
	}
	mixed := func(k int) []string {
		var s []string
		off := rng.Intn(len(allPts))
		for i := 0; i < k; i++ {
			s = append(s, allPts[(off+i)%len(allPts)])
		}
		return s
	}
	quickK := []int{1, 2, 4, 8, 3}
	off := rng.Intn(len(quickK))
	// the 64 KiB and 1 B sizes occur at least once per kind
	for i, pt := range pts {
		if rec.Thorough() {
			for k := 1; k <= 8; k++ {
				add("bad-first", pt, rep(pt, k), 1+(k+i)%3)
			}
		} else {
			add("bad-first", pt, rep(pt, quickK[(i+off)%len(quickK)]), 2)
		}
	}
	out[0].Sizes[1] = [2]int64{1, 65536}
	out[len(out)-1].Sizes[1] = [2]int64{65536, 1}
	// garbage peers, one layer per scenario: 8 peers with 8 different pieces of garbage (the word count of
	// the request line 0..4 is enumerated in every such scenario, everything else is drawn; thorough walks
	// through separators x header shapes x line ends and through the non-textual classes as well)
	for _, gpt := range gpts {
		if gpt == ptGarbageRaw && base == "dns" {
			// nine peers, so that every class of DNS datagram occurs; and once with a client that is already connected when
			// the garbage arrives and goes on to use its session afterwards
			add("bad-first", gpt, rep(gpt, maxWords+5), 2)
			add("good-first", gpt, rep(gpt, maxWords+5), 1)
			if rec.Thorough() {
				for v := 1; v <= 12; v++ {
					addV("bad-first", gpt, rep(gpt, maxWords+5), 1+v%3, v)
					addV("good-first", gpt, rep(gpt, maxWords+5), 1, v)
				}
			}
			continue
		}
		add("bad-first", gpt, rep(gpt, maxWords+4), 2)
		if rec.Thorough() {
			for v := 1; v <= 12; v++ {
				addV("bad-first", gpt, rep(gpt, maxWords+4), 1+v%3, v)
			}
			add("good-first", gpt, rep(gpt, maxWords+4), 1)
		}
	}
	// reverse order: a good client first, then the bad peers, then the same client again and a new one
	gf := allPts[rng.Intn(len(allPts))]
	add("good-first", gf, rep(gf, 1+rng.Intn(3)), 1)
	// mixed points
	add("bad-first", "mixed", mixed(len(allPts)), 2)
	if rec.Thorough() {
		for _, pt := range pts {
			add("good-first", pt, rep(pt, 1+rng.Intn(8)), 1)
		}
		for k := 2; k <= 8; k += 2 {
			add("bad-first", "mixed", mixed(k), 1+k%3)
			add("good-first", "mixed", mixed(k), 1)
		}
	}
	// crowds (c15_crowd_test.go): many peers stalled inside the handshake, beyond any small bound
	if base != "dns" {
		hp := handshakePointsOf(kind)
		var cpts []string
		if base == "udp" || rec.Thorough() {
			cpts = hp
		} else {
			cpts = []string{hp[rng.Intn(len(hp))]}
		}
		for _, pt := range cpts {
			if rec.Thorough() {
				for _, k := range []int{20, 40, 100} {
					add("bad-first", "crowd:"+pt, rep(pt, k), 1+k%3)
				}
			} else {
				add("bad-first", "crowd:"+pt, rep(pt, 20+rng.Intn(29)), 2)
			}
		}
		if rec.Thorough() {
			add("good-first", "crowd:mixed", mixed(100), 2)
		}
	}
	return out
}

// buildHoldCases lists the long-stall scenarios (c15_hold_test.go); each one is a work item of its own
// (a DNS one lowers a package variable of the tunnel and waits a minute or two for the listener's sweep).
func buildHoldCases(rec *vcommon.Rec, ks []string) []*c15Case {
	var out []*c15Case
	for _, kind := range ks {
		rng := vcommon.NewRand(rec.Seed(), "c15hold/"+kind)
		base, _ := baseOf(kind)
		all := append(pointsOf(kind), garbagePointsOf(kind)...)
		add := func(order, label string, points []string, hold string, n int) {
			c := &c15Case{Kind: kind, Order: order, Points: points, Label: label, Goods: 2, Hold: hold, HoldN: n,
				Seed: rec.Seed()*1000000 + 900000 + int64(len(out))}
			for i := 0; i < 12; i++ {
				// (the good clients of the waiting time use these too)
				c.Sizes = append(c.Sizes, [2]int64{sizes[rng.Intn(len(sizes)-2)], sizes[rng.Intn(len(sizes)-2)]})
			}
			if hold == holdDNSPass {
				c.DNSConnTimeoutS = 30
			}
			fillGarbage(c, tunnelDomain, false)
			out = append(out, c)
		}
		switch {
		case base == "dns":
			// every stall point and every garbage layer at once, the good clients after the sweep that
			// found the silent ones stale (thorough: one sweep more)
			add("good-first", "held-over-expiry-sweep:mixed", all, holdDNSPass, rec.Pick(1, 2))
			if rec.Thorough() && kind == "dns" {
				for i, pt := range []string{ptDNSVersion, ptDNSOptions, ptDNSReqGone, ptDNSUpGone} {
					var pp []string
					for k := 0; k < 1+rng.Intn(4); k++ {
						pp = append(pp, pt)
					}
					add([]string{"bad-first", "good-first"}[i%2], "held-over-expiry-sweep:"+pt, pp, holdDNSPass, 1)
				}
			}
		case rec.Thorough():
			add("good-first", "held-over-keepalive-timeout:mixed", all, holdSeconds, 40)
		}
	}
	return out
}

func indexOf(l []string, s string) int {
	for i, v := range l {
		if v == s {
			return i
		}
	}
	return 0
}

func TestVerifC15(t *testing.T) {
	e2e.Quiet()
	rec := vcommon.Open()
	defer rec.Close()
	clientHello()
	rs := &runState{rec: rec, stalls: map[string]int{}}
	if rec.Replay != nil {
		var c c15Case
		if err := json.Unmarshal(rec.Replay, &c); err != nil {
			t.Fatal(err)
		}
		if c.Fault == faultDNSFull {
			rs.runDnsFullScenario(&c)
		} else if c.Fault != "" {
			rs.runFdScenario(&c)
		} else {
			rs.runScenario(&c)
		}
		return
	}
	ks := kinds
	if rec.Thorough() {
		ks = append(append([]string(nil), kinds...), moreKinds...)
	}
	if v := os.Getenv("VERIF_KINDS"); v != "" {
		ks = strings.Split(v, ",")
	}
	// work groups: (kind, half); one child runs all scenarios of its groups one after the other, so that
	// a kind whose endpoint is blocked costs two stall windows and is then abandoned
	// Long-stall scenarios first (work items after the (kind, half) groups): they change a package variable
	// of the DNS tunnel for their duration and count the sweeps of their own listener.
	holds := buildHoldCases(rec, ks)
	for j, c := range holds {
		if !rec.Mine(2*len(ks)+j) || rs.abandon != "" {
			continue
		}
		rs.runScenario(c)
	}
	// Resource-exhaustion scenarios: work items after those (they lower the descriptor limit of the process
	// for their duration); one work item per kind in the thorough tier, two in all in the quick one.
	if os.Getenv("VERIF_KINDS") == "" {
		// the DNS session table filled by stalled peers: one work item per scenario, after the last descriptor item
		nFd := 2
		if rec.Thorough() {
			nFd = len(fdKinds) + len(fdMoreKinds)
		}
		for j, c := range buildDnsFullCases(rec) {
			if rec.Mine(2*len(ks)+len(holds)+nFd+j) && rs.abandon == "" {
				rs.runDnsFullScenario(c)
			}
		}
		fdStalls := 0
		for j, c := range buildFdCases(rec) {
			item := j % 2
			if rec.Thorough() {
				item = indexOf(append(append([]string(nil), fdKinds...), fdMoreKinds...), c.Kind)
			}
			if !rec.Mine(2*len(ks)+len(holds)+item) || rs.abandon != "" || fdStalls >= 2 {
				continue
			}
			if rs.runFdScenario(c) {
				fdStalls++
			}
		}
	}
	for ki, kind := range ks {
		cs := buildCases(rec, kind)
		for half := 0; half < 2; half++ {
			if !rec.Mine(ki*2 + half) {
				continue
			}
			gk := fmt.Sprintf("%s/%d", kind, half)
			for i, c := range cs {
				if i%2 != half {
					continue
				}
				if rs.abandon != "" {
					rec.Note("scenario skipped: "+rs.abandon, map[string]interface{}{"skipped": c})
					rec.Stat("scenarios_skipped_after_unfinished_cleanup", 1)
					continue
				}
				if rs.stalls[gk] >= 2 {
					rec.Note("kind abandoned in this work group after two stalled scenarios", map[string]interface{}{"kind": kind, "skipped": c})
					rec.Stat("scenarios_skipped_after_two_stalls", 1)
					continue
				}
				if rs.runScenario(c) {
					rs.stalls[gk]++
				}
			}
		}
	}
}
