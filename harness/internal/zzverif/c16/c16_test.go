// C16: client connection policy — direct first, ordered failover, reuse, reconnect (DESIGN.md §4 C16).
//
// Reference model (the oracle): a new local connection is served by the listener's forward address if one
// is given and reachable; else by the FIRST upstream in list order whose behaviour is good; an upstream that
// is unreachable, refuses or never answers is abandoned after a bounded wait; all concurrent logical
// connections share ONE physical session; after that session is lost the NEXT local connection gets a new one.
//
// Observation points: the banner the application reads first (every target — one per real server, one for
// the forward address — sends its own name), the accept counters of the targets, the connection counters of
// the relays in front of every real server and of the scripted failing endpoints, and (diagnostic only) the
// order of the client's Connect calls on the listed upstream objects.
package c16

import (
	"encoding/binary"
	"encoding/json"
	"fmt"
	"io"
	"net"
	"os"
	"strings"
	"sync"
	"sync/atomic"
	"testing"
	"time"

	"github.com/bokysan/socketace/v2/internal/verifhook"
	"github.com/bokysan/socketace/v2/internal/zzverif/e2e"
	"github.com/bokysan/socketace/v2/internal/zzverif/vcommon"
)

// ---- case descriptors ----------------------------------------------------------------------------------

type entry struct {
	Kind   string `json:"kind"`             // tcp | tcp+tls | ws | wss (web-socket behind a TLS listener) | udp
	Scheme string `json:"scheme,omitempty"` // how the upstream URL spells the scheme; "" = the kind's default (ws: http, wss: https, udp: udp), else ws | wss | udp4
	Manner string `json:"manner"`           // good | plain | refused | silent | silent-inner | hs-400 | hs-garbage | hs-close
	// kind "dns" with a failing manner: a DNS-tunnel upstream with that many resolver candidates, ALL of them dead in that
	// manner (refused = closed ports | hs-400 = answers rcode REFUSED | hs-garbage | silent), written ?dns=a,b ("") |
	// ?dns=a&dns=b ("repeat") | ?dns=udp://a,udp://b ("udp"); the name servers of /etc/resolv.conf come after them
	Resolvers int    `json:"resolvers,omitempty"`
	DNSList   string `json:"dns_list,omitempty"`
	Host      string `json:"host,omitempty"` // "" | localhost | ip | ip6: spelling of the host in the upstream URL (name, 127.0.0.1, [::1] with the endpoint listening on ::1); a real endpoint's certificate is valid for that spelling only
}

// anyCase is the replayable descriptor of every kind of C16 case (Part selects which fields matter).
type anyCase struct {
	Part    string  `json:"part"` // list | silent | reuse | loss
	Entries []entry `json:"entries,omitempty"`
	Forward string  `json:"forward,omitempty"` // none | reachable | refused
	End     string  `json:"end,omitempty"`     // forward reachable: how the served connection ends: "" (orderly) | target-reset | app-abort
	Secure  bool    `json:"secure"`
	Kind    string  `json:"kind,omitempty"`   // reuse, loss
	Scheme  string  `json:"scheme,omitempty"` // reuse, loss: spelling of the scheme in the upstream URL ("" = the kind's default)
	Host    string  `json:"host,omitempty"`   // reuse, loss: spelling of the host in the upstream URL (see entry.Host)
	M       int     `json:"m,omitempty"`      // reuse
	How     string  `json:"how,omitempty"`    // loss: cut-fin | cut-rst | server-restart | server-restart-attempt-while-down | server-gone | black-hole
	When    string  `json:"when,omitempty"`   // loss: idle | mid-transfer | during-open
	Burst   int     `json:"burst,omitempty"`  // loss: that many local connections at once after the loss (0 = one)
	Probe   bool    `json:"probe_recovery,omitempty"`
	Hold    int     `json:"hold_seconds_after_reconnect,omitempty"` // loss: the connection served by the new session is kept that long, then used again
	Seed    int64   `json:"seed"`
	// judged (slow part only): called once when the verdict of the case is in, before anything is torn down.
	// It blocks until every concurrently running case has its verdict: the teardown of one case (closing a
	// silent endpoint lets the stuck client move on) is progress that would restart the stall window of the others.
	judged func()
}

func (c *anyCase) hold() {
	if c.judged != nil {
		c.judged()
	}
}

// silentWindow: a silent upstream is judged "never abandoned" only after this long without the client
// trying the next upstream (any handshake bound a maintainer might reasonably pick is far below it).
const silentWindow = 95 * time.Second

func isGood(e entry, secure bool) bool {
	return e.Manner == "good" || (e.Manner == "plain" && !secure)
}

func isReal(e entry) bool { return e.Manner == "good" || e.Manner == "plain" }

func pattern(c *anyCase) string {
	var m []string
	for _, e := range c.Entries {
		m = append(m, e.Manner)
	}
	p := strings.Join(m, ">")
	if c.Secure {
		p += ",secure"
	}
	return p
}

func (c *anyCase) key() string {
	b, _ := json.Marshal(c)
	return string(b)
}

// ---- scenario: everything one case runs against ----------------------------------------------------------

type scenario struct {
	c       *anyCase
	names   []string // banner name of the real endpoint behind entry i ("" if scripted)
	eps     []*e2e.C16Endpoint
	scr     []*e2e.C16Scripted
	fwd     *e2e.Target
	fwdRef  *e2e.C16Scripted
	cl      *e2e.C16Client
	targets map[string]*e2e.Target
	moved   int64
}

func (s *scenario) close() {
	for _, x := range s.scr {
		if x != nil {
			x.Close()
		}
	}
	if s.cl != nil {
		// a client that was stuck on a scripted endpoint moves on now: let it finish while the other endpoints of
		// this scenario still exist (their ports may belong to somebody else a moment after they are closed)
		for i := 0; i < 40; i++ {
			open := false
			for _, t := range s.cl.Trace.Trials() {
				open = open || t.Open
			}
			if !open {
				break
			}
			time.Sleep(50 * time.Millisecond)
		}
		s.cl.Close()
	}
	for _, e := range s.eps {
		if e != nil {
			e.Close()
		}
	}
	if s.fwd != nil {
		s.fwd.Close()
	}
	if s.fwdRef != nil {
		s.fwdRef.Close()
	}
}

// build starts the endpoints of the entries, the forward target and the client.
func build(entries []entry, forward string, secure bool) (*scenario, error) {
	s := &scenario{targets: map[string]*e2e.Target{}}
	var urls []string
	for i, en := range entries {
		var ep *e2e.C16Endpoint
		var sc *e2e.C16Scripted
		var err error
		name := ""
		if isReal(en) {
			name = fmt.Sprintf("E%d", i)
			ep, err = e2e.NewC16EndpointHost(en.Kind, name, en.Manner == "good", en.Host)
			if err == nil {
				ep.Scheme = en.Scheme
				s.targets[name] = ep.Target
				urls = append(urls, ep.URL())
			}
		} else {
			if en.Kind == "dns" {
				sc, err = e2e.NewC16ScriptedDNSHost(en.Manner, en.Resolvers, en.Host)
				if err == nil {
					sc.DNSList = en.DNSList
				}
			} else {
				sc, err = e2e.NewC16ScriptedHost(en.Kind, en.Manner, en.Host)
			}
			if err == nil {
				sc.Host, sc.Scheme = en.Host, en.Scheme
				urls = append(urls, sc.URL())
			}
		}
		s.eps, s.scr, s.names = append(s.eps, ep), append(s.scr, sc), append(s.names, name)
		if err != nil {
			s.close()
			return nil, err
		}
	}
	fw := ""
	switch forward {
	case "reachable":
		t, err := e2e.NewTarget("FWD", "tcp", "", true)
		if err != nil {
			s.close()
			return nil, err
		}
		t.Banner = e2e.C16Banner("FWD")
		s.fwd = t
		s.targets["FWD"] = t
		fw = t.URL()
	case "refused":
		r, err := e2e.NewC16Scripted("tcp", "refused")
		if err != nil {
			s.close()
			return nil, err
		}
		s.fwdRef = r
		fw = "tcp://" + r.Addr
	}
	cl, err := e2e.NewC16Client(urls, fw, secure)
	if err != nil {
		s.close()
		return nil, err
	}
	s.cl = cl
	return s, nil
}

// physical: connections seen so far at the endpoint of every entry.
func (s *scenario) physical() []int64 {
	out := make([]int64, len(s.eps))
	for i := range s.eps {
		if s.eps[i] != nil {
			out[i] = s.eps[i].Physical()
		} else if s.scr[i] != nil {
			out[i] = s.scr[i].Accepts()
		}
	}
	return out
}

// spinLimit: that many distinct client sockets at ONE dead resolver candidate of a dns upstream, all from the few
// attempts of one case (the reference model dials a candidate once per attempt), are the witness that the client is
// going round in circles on it.
const spinLimit = 1000

func (s *scenario) resolverContacts() (all [][]int, max int) {
	for _, x := range s.scr {
		if x != nil && x.Kind == "dns" {
			c := x.ResolverContacts()
			all = append(all, c)
			for _, n := range c {
				if n > max {
					max = n
				}
			}
		}
	}
	return
}

func (s *scenario) spins() bool {
	_, m := s.resolverContacts()
	return m >= spinLimit
}

func sum(v []int64) (n int64) {
	for _, x := range v {
		n += x
	}
	return
}

// progress is the case-local progress counter: endpoint contacts, Connect calls started/finished, target
// accepts and verified payload bytes of this scenario.
func (s *scenario) progress() int64 {
	n := sum(s.physical()) + 2*s.cl.Trace.Count() + atomic.LoadInt64(&s.moved)
	for _, t := range s.targets {
		n += t.AcceptCount()
	}
	for _, tr := range s.cl.Trace.Trials() {
		if !tr.Open {
			n++
		}
	}
	return n
}

type connResult struct {
	Outcome string // served | closed | stalled | inconclusive | harness-error
	By      string
	Detail  string
	Data    *e2e.Failure
	app     net.Conn
	tgt     net.Conn
}

func (r *connResult) done() {
	if r.app != nil {
		r.app.Close()
	}
	if r.tgt != nil {
		r.tgt.Close()
	}
}

func (r *connResult) short() string {
	s := r.Outcome
	if r.By != "" {
		s += " by " + r.By
	}
	if r.Data != nil {
		s += " data:" + r.Data.Kind
	}
	if r.Detail != "" {
		s += " (" + r.Detail + ")"
	}
	return s
}

// connect opens one local connection like an application would: it connects to the client's listener,
// sends its first bytes (an 8-byte tag) and reads. Whoever serves it announces itself with its banner; then
// n keyed bytes go each way and are verified at both ends. wait = the stall rule to apply while nothing has
// answered yet. keep: leave the logical connection open (caller closes).
func (s *scenario) connect(key uint64, n int64, wait func(<-chan struct{}) e2e.Outcome, keep bool) *connResult {
	r := &connResult{}
	app, err := s.cl.Dial()
	if err != nil {
		r.Outcome, r.Detail = "harness-error", "dial of the client's own listener failed: "+err.Error()
		return r
	}
	r.app = app
	var hdr [8]byte
	binary.BigEndian.PutUint64(hdr[:], key)
	if _, err := app.Write(hdr[:]); err != nil {
		r.Outcome, r.Detail = "closed", "write: "+err.Error()
		r.done()
		return r
	}
	var banner [8]byte
	var rerr error
	got := e2e.Go(func() { _, rerr = io.ReadFull(app, banner[:]) })
	switch wait(got) {
	case e2e.Stalled:
		r.Outcome = "stalled"
		app.Close()
		<-got
		return r
	case e2e.Inconclusive:
		r.Outcome = "inconclusive"
		app.Close()
		<-got
		return r
	}
	if rerr != nil {
		r.Outcome, r.Detail = "closed", rerr.Error()
		r.done()
		return r
	}
	e2e.Bump(8)
	atomic.AddInt64(&s.moved, 8)
	r.By = strings.TrimSpace(string(banner[:]))
	t := s.targets[r.By]
	if t == nil {
		r.Outcome = "served"
		r.Data = &e2e.Failure{Kind: "unknown-banner", Info: map[string]interface{}{"banner": fmt.Sprintf("%q", banner[:])}}
		r.done()
		return r
	}
	tgt, o := t.NextTagged(key)
	if o != e2e.Done {
		r.Outcome = "served"
		r.Data = &e2e.Failure{Kind: "target-side-not-found:" + o.String(), Inconclusive: o == e2e.Inconclusive}
		r.done()
		return r
	}
	r.tgt = tgt
	r.Outcome = "served"
	ab := &e2e.Stream{Key: key*4 + 1, Len: n}
	ba := &e2e.Stream{Key: key*4 + 2, Len: n}
	r.Data = e2e.Duplex(app, tgt, ab, ba, "c2t", "t2c", []uint64{ab.Key, ba.Key})
	if r.Data == nil {
		atomic.AddInt64(&s.moved, 2*n)
	}
	if !keep {
		r.done()
	}
	return r
}

func stdWait(done <-chan struct{}) e2e.Outcome { return e2e.Wait(done) }

// ---- (A) failover / forward ------------------------------------------------------------------------------

// expected server of a list case according to the reference model: "FWD", "E<i>" or "" (nobody: the local
// connection is refused/closed).
func expected(c *anyCase) (string, int) {
	if c.Forward == "reachable" {
		return "FWD", -1
	}
	for i, e := range c.Entries {
		if isGood(e, c.Secure) {
			return fmt.Sprintf("E%d", i), i
		}
	}
	return "", -1
}

func silentSig(e entry) string {
	s := "silent-upstream-never-abandoned:" + e.Kind
	switch {
	case e.Manner == "silent-inner":
		s += ":after-carrier-handshake"
	case e.Manner == "silent-after-200":
		s += ":after-200"
	case e.Manner == "silent-in-starttls":
		s += ":in-starttls"
	case e.Manner == "refused" && (e.Kind == "udp" || e.Kind == "dns"):
		s += ":closed-port"
	case e.Kind == "dns" && e.Manner == "hs-400":
		s += ":answers-refused"
	case e.Kind == "dns" && e.Manner == "hs-garbage":
		s += ":answers-garbage"
	}
	return s
}

// runList runs one list case (parts "list" and "silent") and judges it. Returns true if the case stalled.
func runList(rec *vcommon.Rec, c *anyCase) (stalled bool) {
	rec.Mark(c)
	s, err := build(c.Entries, c.Forward, c.Secure)
	if err != nil {
		rec.Inconclusive("fixture: "+err.Error(), c)
		return false
	}
	defer func() { c.hold(); s.close() }()
	// the sessions the real servers of this process accept while the case runs, as the SERVERS see them (secured or
	// not); only where cases run one after the other (the event log is process-wide)
	watchSessions := c.judged == nil
	if watchSessions {
		verifhook.Events()
		verifhook.Record(true)
		defer func() { verifhook.Record(false); verifhook.Events() }()
	}
	wait := stdWait
	if c.Part == "silent" {
		wait = func(d <-chan struct{}) e2e.Outcome { return e2e.C16WaitLocalBusy(d, s.progress, silentWindow, s.spins) }
	}
	want, wantIdx := expected(c)
	key := uint64(c.Seed)*16 + 1

	// a second application connects a moment later (silent part only): the reference model serves it the same way
	var second *connResult
	var secondDone <-chan struct{}
	if c.Part == "silent" {
		secondDone = e2e.Go(func() {
			time.Sleep(time.Second)
			second = s.connect(key+1, 1500, wait, false)
		})
	}
	r := s.connect(key, 3000, wait, c.End != "")
	if c.End != "" && r.Outcome == "served" && r.app != nil && r.tgt != nil {
		// the served connection ends with a transport error instead of an orderly close; the reference model does not
		// care how a connection that WAS served ends: the upstreams stay untouched
		ended := e2e.Go(func() {
			switch c.End {
			case "target-reset":
				if l, ok := r.tgt.(interface{ SetLinger(int) error }); ok {
					l.SetLinger(0)
				}
				r.tgt.Close()
				io.Copy(io.Discard, r.app)
			case "app-abort":
				// the application dies with unread data in its socket: its peer sees a reset, not an end-of-stream
				r.tgt.Write(make([]byte, 4096))
				time.Sleep(200 * time.Millisecond)
				r.app.Close()
				io.Copy(io.Discard, r.tgt)
			}
		})
		if e2e.Wait(ended) == e2e.Done {
			rec.Stat("forward_connections_ended_by:"+c.End, 1)
		}
		r.done()
		// give a client that wrongly carries on the time to show it (its first Connect call comes at once)
		for i := 0; i < 30 && len(s.cl.Trace.Trials()) == 0; i++ {
			time.Sleep(50 * time.Millisecond)
		}
	}
	if secondDone != nil {
		<-secondDone
	}
	phys := s.physical()
	trials := s.cl.Trace.Trials()
	obs := map[string]interface{}{"expected_server": want, "outcome": r.short(), "physical_connections_per_entry": phys, "client_connect_calls": trials}
	if second != nil {
		obs["second_local_connection"] = second.short()
	}
	if s.fwd != nil {
		obs["forward_target_accepts"] = s.fwd.AcceptCount()
	}
	if rc, m := s.resolverContacts(); rc != nil {
		obs["client_sockets_seen_per_dead_resolver(dns entries)"] = rc
		rec.StatMax("dns:client_sockets_seen_at_one_dead_resolver", int64(m))
	}

	securedSessions, sessions := -1, 0
	if watchSessions {
		securedSessions = 0
		var seen []string
		for _, ev := range verifhook.Events() {
			if ev.Kind != "server.session" || len(ev.KV) < 2 {
				continue
			}
			sessions++
			if sec, _ := ev.KV[0].(bool); sec {
				securedSessions++
			}
			seen = append(seen, fmt.Sprintf("secure=%v tech=%v", ev.KV[0], ev.KV[1]))
		}
		obs["sessions_accepted_by_the_servers(as the server sees them)"] = seen
	}
	for i, e := range c.Entries {
		rec.Seen("entry(kind,manner)", e.Kind+"/"+e.Manner)
		rec.Seen("entry(kind,scheme,manner,secure-required)", fmt.Sprintf("%s|%s|%s|%v", e.Kind, e.Scheme, e.Manner, c.Secure))
		rec.Seen("entry(kind,host,manner)", e.Kind+"|"+e.Host+"|"+e.Manner)
		if e.Kind == "dns" {
			rec.Seen("dns-entry(manner,dead-resolver-candidates,list-syntax,position,list-length)", fmt.Sprintf("%s|%d|%s|%d|%d", e.Manner, e.Resolvers, e.DNSList, i, len(c.Entries)))
		}
	}
	rec.Seen("list(length,failing-positions,forward,secure)", fmt.Sprintf("%d|%s|%s|%v", len(c.Entries), failMask(c), c.Forward, c.Secure))
	rec.Seen("forward", c.Forward)
	rec.Stat("physical_connections_counted", sum(phys))

	switch r.Outcome {
	case "harness-error":
		rec.Case(c.key(), false)
		rec.Inconclusive(r.Detail, c)
		return false
	case "inconclusive":
		rec.Case(c.key(), false)
		rec.Inconclusive("busy while waiting for the local connection to be served", c)
		return false
	}
	rec.Case(c.key(), true)
	rec.Stat("local_connections_judged", 1)
	pat := pattern(c)
	viol := func(sig string) {
		if r.Outcome == "stalled" {
			obs["goroutines"] = e2e.Clip(e2e.Stacks(), 40000)
		}
		rec.Violation(sig, c, obs)
	}
	switch r.Outcome {
	case "stalled":
		// which Connect call has not returned? (direct observation of where the client is stuck)
		stuck := -1
		for _, t := range trials {
			if t.Open {
				stuck = t.Index
			}
		}
		switch {
		case c.Part == "silent" && stuck >= 0 && !isReal(c.Entries[stuck]) &&
			(strings.HasPrefix(c.Entries[stuck].Manner, "silent") || (c.Entries[stuck].Kind == "udp" && c.Entries[stuck].Manner == "refused") || c.Entries[stuck].Kind == "dns"):
			sig := silentSig(c.Entries[stuck])
			if s.spins() {
				sig += ":same-dead-resolver-dialled-without-end"
			}
			viol(sig)
		case c.Forward == "reachable":
			viol("forward:ignored")
		case want != "":
			viol("failover:stalls-although-a-good-upstream-is-listed:" + pat)
		default:
			viol("failover:stalls:" + pat)
		}
		return true
	case "closed":
		rec.Stat("outcome:closed", 1)
		switch {
		case want == "":
			// nobody can serve: refusing the local connection is the correct report
		case want == "FWD":
			viol("forward:ignored")
		case c.Forward == "refused":
			viol("forward-refused:no-fallback-to-upstreams")
		default:
			viol("failover:gives-up-although-a-good-upstream-is-listed:" + pat)
		}
	case "served":
		rec.Stat("outcome:served", 1)
		rec.Seen("served-by(kind)", servedKind(c, r.By))
		switch {
		case r.By == want:
			if r.Data != nil {
				if r.Data.Inconclusive {
					rec.Inconclusive(r.Data.Kind, c)
				} else {
					obs["transfer"] = r.Data.Info
					viol("served-but-data-fails:" + servedKind(c, r.By) + ":" + r.Data.Kind)
				}
				break
			}
			rec.Stat("bytes_verified", 6000)
			if c.Secure && want != "FWD" && securedSessions >= 0 {
				// "a handshake meeting the security requirement": the upstream that serves under --secure has a session
				// that its server, too, holds to be secured (nothing sits between the two but byte relays)
				rec.Stat("secure:served_connections_checked_against_the_servers_view", 1)
				if securedSessions == 0 {
					viol("secure:served-over-a-session-the-server-holds-unsecured:" + servedSpelling(c, r.By))
				}
			}
			if want == "FWD" && len(trials) > 0 {
				// decided by the client's own Connect calls on the listed upstreams; the endpoints' counters are
				// reported with it (a stray datagram from elsewhere on the machine can move a udp counter)
				if c.End != "" {
					viol("forward:upstreams-used-although-the-forward-address-served-the-connection:" + c.End)
				} else {
					viol("forward:not-tried-first")
				}
			}
			if want != "FWD" && wantIdx >= 0 && phys[wantIdx] < 1 {
				viol("harness:served-without-a-physical-connection") // cannot happen; guards the counters themselves
			}
		case want == "FWD":
			viol("forward:ignored")
		case r.By == "FWD":
			viol("forward:served-although-not-configured-reachable")
		default:
			viol("failover:wrong-upstream:" + pat)
		}
	}
	if second != nil && r.Outcome == "served" && r.By == want && (second.Outcome != "served" || second.By != want) && second.Outcome != "inconclusive" {
		viol("failover:second-connection-not-served-like-the-first:" + pat)
	}
	return false
}

func servedKind(c *anyCase, by string) string {
	if by == "FWD" {
		return "forward"
	}
	var i int
	if _, err := fmt.Sscanf(by, "E%d", &i); err == nil && i >= 0 && i < len(c.Entries) {
		return c.Entries[i].Kind
	}
	return "unknown"
}

// servedSpelling: kind of the serving entry and how its URL spells the scheme, e.g. "ws(ws://)".
func servedSpelling(c *anyCase, by string) string {
	var i int
	if _, err := fmt.Sscanf(by, "E%d", &i); err == nil && i >= 0 && i < len(c.Entries) {
		e := c.Entries[i]
		sch := e.Scheme
		if sch == "" {
			if l := e2e.C16Spellings[e.Kind]; len(l) > 0 {
				sch = l[0]
			}
		}
		return e.Kind + "(" + sch + "://)"
	}
	return "unknown"
}

func failMask(c *anyCase) string {
	b := make([]byte, len(c.Entries))
	for i, e := range c.Entries {
		if isGood(e, c.Secure) {
			b[i] = 'g'
		} else {
			b[i] = 'F'
		}
	}
	return string(b)
}

// cycle hands out the members of a pool round-robin from a seeded starting order, so that every member is
// used again and again instead of being left to chance.
type cycle struct {
	pool []entry
	i    int
}

func (c *cycle) next() entry {
	e := c.pool[c.i%len(c.pool)]
	c.i++
	return e
}

// listKinds: the upstream kinds of the list workload. "wss" is the web-socket endpoint behind a TLS listener
// (written https:// or wss://); like tcp+tls it always has a certificate, so there is no "plain" wss server.
var listKinds = append(append([]string{}, e2e.C16Kinds...), "wss")

func alwaysTLS(kind string) bool { return kind == "tcp+tls" || kind == "wss" }

// speller hands out the spellings of a kind's scheme in turn, separately for every (kind, manner): every
// spelling meets every manner again and again. The default spelling is stored as "".
type speller map[string]int

func (sp speller) next(e entry) entry {
	l := e2e.C16Spellings[e.Kind]
	if len(l) < 2 {
		return e
	}
	k := e.Kind + "/" + e.Manner
	if x := l[sp[k]%len(l)]; x != l[0] {
		e.Scheme = x
	}
	sp[k]++
	return e
}

func pools(secure bool) (good, reached, unreached []entry) {
	for _, k := range listKinds {
		good = append(good, entry{Kind: k, Manner: "good"})
		if !secure && !alwaysTLS(k) {
			good = append(good, entry{Kind: k, Manner: "plain"})
		}
		if k == "udp" {
			reached = append(reached, entry{Kind: k, Manner: "hs-400"}, entry{Kind: k, Manner: "hs-garbage"})
		} else {
			reached = append(reached, entry{Kind: k, Manner: "refused"}, entry{Kind: k, Manner: "hs-400"}, entry{Kind: k, Manner: "hs-garbage"}, entry{Kind: k, Manner: "hs-close"})
		}
		if secure && !alwaysTLS(k) {
			reached = append(reached, entry{Kind: k, Manner: "plain"})
		}
	}
	unreached = append(unreached, reached...)
	for _, k := range listKinds {
		unreached = append(unreached, entry{Kind: k, Manner: "silent"})
	}
	unreached = append(unreached, entry{Kind: "udp", Manner: "refused"}, entry{Kind: "tcp+tls", Manner: "silent-inner"}, entry{Kind: "ws", Manner: "silent-inner"}, entry{Kind: "wss", Manner: "silent-inner"})
	unreached = append(unreached, halfSilent...)
	return
}

// halfSilent: upstreams that play a correct server for the first part of the handshake and then fall silent
var halfSilent = []entry{{Kind: "tcp", Manner: "silent-after-200"}, {Kind: "tcp", Manner: "silent-in-starttls"}, {Kind: "tcp+tls", Manner: "silent-after-200"},
	{Kind: "ws", Manner: "silent-after-200"}, {Kind: "ws", Manner: "silent-in-starttls"}, {Kind: "udp", Manner: "silent-after-200"}, {Kind: "udp", Manner: "silent-in-starttls"}}

func listCases(rec *vcommon.Rec) []*anyCase {
	rng := vcommon.NewRand(rec.Seed(), "c16/list")
	type set struct{ good, reached, unreached *cycle }
	mk := func(secure bool) *set {
		g, r, u := pools(secure)
		for _, p := range [][]entry{g, r, u} {
			rng.Shuffle(len(p), func(i, j int) { p[i], p[j] = p[j], p[i] })
		}
		return &set{&cycle{pool: g}, &cycle{pool: r}, &cycle{pool: u}}
	}
	sets := map[bool]*set{false: mk(false), true: mk(true)}
	var out []*anyCase
	n := 0
	spell := speller{}
	gen := func(length, mask int, forwards []string) {
		n++
		secure := n%2 == 0
		st := sets[secure]
		firstGood := length
		for i := 0; i < length; i++ {
			if mask&(1<<uint(i)) == 0 {
				firstGood = i
				break
			}
		}
		var es []entry
		for i := 0; i < length; i++ {
			switch {
			case mask&(1<<uint(i)) == 0:
				es = append(es, spell.next(st.good.next()))
			case i < firstGood:
				es = append(es, spell.next(st.reached.next()))
			default:
				es = append(es, spell.next(st.unreached.next()))
			}
		}
		for _, fw := range forwards {
			out = append(out, &anyCase{Part: "list", Entries: es, Forward: fw, Secure: secure, Seed: rec.Seed()*100000 + int64(len(out))})
		}
	}
	all := []string{"none", "reachable", "refused"}
	out = append(out, spellingCases(rec)...)
	out = append(out, hostCases(rec)...)
	defer func() {
		// every second list of two or more entries spells its hosts alternately by name and by address, and every real
		// endpoint's certificate is valid for its own spelling only
		for k, c := range out {
			if len(c.Entries) >= 2 && k%2 == 1 {
				es := append([]entry{}, c.Entries...)
				hosts := hostSpellings()
				for i := range es {
					es[i] = spellHost(es[i], hosts[(i+k/2)%len(hosts)])
				}
				c.Entries = es
			}
		}
	}()
	defer func() {
		// every second case with a reachable forward address ends its connection with a transport error
		k := 0
		for _, c := range out {
			if c.Forward == "reachable" {
				c.End = []string{"", "target-reset", "", "app-abort"}[k%4]
				k++
			}
		}
	}()
	reps := rec.Pick(8, 60)
	for rep := 0; rep < reps; rep++ {
		for length := 1; length <= 3; length++ {
			for mask := 0; mask < 1<<uint(length); mask++ { // every failing subset
				gen(length, mask, all)
			}
		}
	}
	for i := 0; i < rec.Pick(40, 600); i++ { // seeded sample of 4-entry lists
		gen(4, rng.Intn(16), []string{all[rng.Intn(3)]})
	}
	return out
}

// hostSpellings: the ways the host of an upstream address is written in the workload: by name, as an IPv4 literal,
// as an IPv6 literal (only where the machine has a ::1 loopback).
func hostSpellings() []string {
	if e2e.C16HasIPv6Loopback() {
		return []string{"localhost", "ip", "ip6"}
	}
	return []string{"localhost", "ip"}
}

// spellHost gives an entry a host spelling; an address family that the scheme excludes is not a spelling of the same
// endpoint (udp4://[::1] can never work), so the scheme follows the family there.
func spellHost(e entry, host string) entry {
	e.Host = host
	if host == "ip6" && e.Scheme == "udp4" {
		e.Scheme = "udp6"
	}
	return e
}

// hostCases: every kind x every spelling of the host (each real endpoint holds a certificate that is valid for its own
// spelling only, and listens on the loopback of its spelling) x --secure off / on, alone in the list and ahead of a
// healthy upstream that is spelled differently. The reference model does not know spellings.
func hostCases(rec *vcommon.Rec) []*anyCase {
	var out []*anyCase
	hosts := hostSpellings()
	k := 0
	for _, kind := range listKinds {
		for hi, host := range hosts {
			for _, secure := range []bool{false, true} {
				x := spellHost(entry{Kind: kind, Manner: "good"}, host)
				f := spellHost(entry{Kind: listKinds[(k+1)%len(listKinds)], Manner: "good"}, hosts[(hi+1+k%2)%len(hosts)])
				for _, es := range [][]entry{{x}, {x, f}} {
					out = append(out, &anyCase{Part: "list", Entries: es, Forward: "none", Secure: secure, Seed: rec.Seed()*100000 + 45000 + int64(len(out))})
				}
				k++
			}
		}
	}
	return out
}

// spellingCases: every way an upstream address of a kind can be written (http:// | ws://, https:// | wss://,
// udp:// | udp4://) x the two behaviours that matter for the security requirement (a server that can secure
// the session, a server that cannot) x --secure off / on, alone in the list and ahead of an upstream that does
// meet the requirement. The reference model does not know spellings: a kind behaves the same however it is written.
func spellingCases(rec *vcommon.Rec) []*anyCase {
	var out []*anyCase
	followers := []entry{{Kind: "tcp+tls", Manner: "good"}, {Kind: "tcp", Manner: "good"}, {Kind: "wss", Manner: "good", Scheme: "wss"},
		{Kind: "ws", Manner: "good", Scheme: "ws"}, {Kind: "udp", Manner: "good", Scheme: "udp4"}, {Kind: "wss", Manner: "good"}}
	k := 0
	for _, kind := range listKinds {
		sp := e2e.C16Spellings[kind]
		if len(sp) < 2 {
			continue
		}
		for i, scheme := range sp {
			if i == 0 {
				scheme = ""
			}
			for _, manner := range []string{"good", "plain"} {
				if manner == "plain" && alwaysTLS(kind) {
					continue
				}
				for _, secure := range []bool{false, true} {
					x := entry{Kind: kind, Scheme: scheme, Manner: manner}
					for _, es := range [][]entry{{x}, {x, followers[k%len(followers)]}} {
						out = append(out, &anyCase{Part: "list", Entries: es, Forward: "none", Secure: secure, Seed: rec.Seed()*100000 + 40000 + int64(len(out))})
					}
					k++
				}
			}
		}
	}
	return out
}

func silentCases(rec *vcommon.Rec) []*anyCase {
	var out []*anyCase
	add := func(secure bool, fw string, es ...entry) {
		out = append(out, &anyCase{Part: "silent", Entries: es, Forward: fw, Secure: secure, Seed: rec.Seed()*100000 + 50000 + int64(len(out))})
	}
	add(false, "none", entry{Kind: "tcp", Manner: "silent"}, entry{Kind: "tcp", Manner: "good"})
	add(false, "none", entry{Kind: "tcp+tls", Manner: "silent"}, entry{Kind: "ws", Manner: "plain"})
	add(false, "none", entry{Kind: "tcp+tls", Manner: "silent-inner"}, entry{Kind: "tcp+tls", Manner: "good"})
	add(false, "none", entry{Kind: "ws", Manner: "silent"}, entry{Kind: "udp", Manner: "good"})
	add(false, "none", entry{Kind: "ws", Manner: "silent-inner"}, entry{Kind: "tcp", Manner: "plain"})
	add(false, "none", entry{Kind: "udp", Manner: "silent"}, entry{Kind: "tcp", Manner: "good"})
	add(false, "none", entry{Kind: "udp", Manner: "refused"}, entry{Kind: "udp", Manner: "plain"})
	add(false, "refused", entry{Kind: "tcp", Manner: "refused"}, entry{Kind: "tcp", Manner: "silent"}, entry{Kind: "ws", Manner: "good"})
	add(true, "none", entry{Kind: "tcp", Manner: "plain"}, entry{Kind: "tcp", Manner: "silent"}, entry{Kind: "tcp+tls", Manner: "good"})
	add(false, "none", entry{Kind: "tcp", Manner: "silent"}) // nobody good: must be given up, not held for ever
	// silent only after a correct first answer / inside StartTLS
	add(false, "none", entry{Kind: "tcp", Manner: "silent-after-200"}, entry{Kind: "tcp", Manner: "good"})
	add(false, "none", entry{Kind: "tcp", Manner: "silent-in-starttls"}, entry{Kind: "ws", Manner: "good"})
	add(true, "none", entry{Kind: "tcp+tls", Manner: "silent-after-200"}, entry{Kind: "tcp", Manner: "good"})
	add(false, "none", entry{Kind: "ws", Manner: "silent-after-200"}, entry{Kind: "tcp", Manner: "plain"})
	add(true, "none", entry{Kind: "ws", Manner: "silent-in-starttls"}, entry{Kind: "udp", Manner: "good"})
	add(false, "refused", entry{Kind: "udp", Manner: "silent-after-200"}, entry{Kind: "tcp+tls", Manner: "good"})
	add(false, "none", entry{Kind: "udp", Manner: "silent-in-starttls"}, entry{Kind: "tcp", Manner: "good"})
	add(true, "none", entry{Kind: "tcp", Manner: "hs-close"}, entry{Kind: "tcp", Manner: "silent-in-starttls"}) // nobody good
	// the web-socket endpoint behind TLS, silent before / after the TLS handshake; the other spellings of the schemes
	add(true, "none", entry{Kind: "wss", Scheme: "wss", Manner: "silent"}, entry{Kind: "ws", Scheme: "ws", Manner: "good"})
	add(false, "none", entry{Kind: "wss", Manner: "silent-inner"}, entry{Kind: "udp", Scheme: "udp4", Manner: "good"})
	add(true, "none", entry{Kind: "ws", Scheme: "ws", Manner: "silent-after-200"}, entry{Kind: "wss", Manner: "good"})
	// a DNS-tunnel upstream with 1, 2, 3 resolver candidates, every one of them dead (the name servers of /etc/resolv.conf
	// are tried after them): each candidate costs the tunnel handshake its own time-outs, then the upstream is given up
	add(false, "none", entry{Kind: "dns", Manner: "refused", Resolvers: 1}, entry{Kind: "tcp", Manner: "good"})
	add(false, "none", entry{Kind: "dns", Manner: "refused", Resolvers: 2}, entry{Kind: "ws", Manner: "good"})
	add(true, "none", entry{Kind: "dns", Manner: "refused", Resolvers: 3, DNSList: "repeat"}, entry{Kind: "tcp+tls", Manner: "good"})
	add(false, "none", entry{Kind: "dns", Manner: "hs-400", Resolvers: 1, DNSList: "udp"}, entry{Kind: "tcp", Manner: "plain"})
	add(true, "refused", entry{Kind: "dns", Manner: "hs-400", Resolvers: 2}, entry{Kind: "tcp", Manner: "good"})
	add(false, "none", entry{Kind: "dns", Manner: "hs-garbage", Resolvers: 2, DNSList: "repeat"}, entry{Kind: "udp", Manner: "good"})
	add(false, "none", entry{Kind: "tcp", Manner: "hs-close"}, entry{Kind: "dns", Manner: "hs-garbage", Resolvers: 3, DNSList: "udp"}, entry{Kind: "wss", Manner: "good"})
	add(false, "none", entry{Kind: "tcp", Manner: "good"}, entry{Kind: "dns", Manner: "refused", Resolvers: 2}) // after a healthy upstream: never contacted
	add(false, "none", entry{Kind: "dns", Manner: "hs-400", Resolvers: 2})                                      // nobody good: must be given up, not held for ever
	if e2e.C16HasIPv6Loopback() {
		// the same on the IPv6 loopback, written [::1]:port
		add(true, "none", entry{Kind: "tcp", Manner: "silent", Host: "ip6"}, entry{Kind: "tcp", Manner: "good", Host: "ip6"})
		add(false, "none", entry{Kind: "ws", Scheme: "ws", Manner: "silent-in-starttls", Host: "ip6"}, entry{Kind: "udp", Manner: "good", Host: "ip6"})
		add(false, "none", entry{Kind: "dns", Manner: "refused", Resolvers: 2, Host: "ip6"}, entry{Kind: "ws", Manner: "good", Host: "ip6"})
		add(true, "none", entry{Kind: "dns", Manner: "hs-400", Resolvers: 2, DNSList: "repeat", Host: "ip6"}, entry{Kind: "tcp+tls", Manner: "good", Host: "ip"})
	}
	if rec.Thorough() {
		rng := vcommon.NewRand(rec.Seed(), "c16/silent")
		sil := []entry{{Kind: "tcp", Manner: "silent"}, {Kind: "tcp+tls", Manner: "silent"}, {Kind: "tcp+tls", Manner: "silent-inner"}, {Kind: "ws", Manner: "silent"}, {Kind: "ws", Manner: "silent-inner"}, {Kind: "udp", Manner: "silent"}, {Kind: "udp", Manner: "refused"},
			{Kind: "wss", Manner: "silent"}, {Kind: "wss", Scheme: "wss", Manner: "silent-inner"}, {Kind: "ws", Scheme: "ws", Manner: "silent"}, {Kind: "udp", Scheme: "udp4", Manner: "silent"},
			{Kind: "dns", Manner: "silent", Resolvers: 1, DNSList: "udp"}, {Kind: "dns", Manner: "refused", Resolvers: 2, DNSList: "udp"}, {Kind: "dns", Manner: "hs-400", Resolvers: 3, DNSList: "repeat"},
			{Kind: "dns", Manner: "hs-garbage", Resolvers: 1}, {Kind: "dns", Manner: "hs-400", Resolvers: 2, Host: "localhost"}}
		sil = append(sil, halfSilent...)
		for i, x := range sil {
			secure := i%2 == 0
			g, reached, _ := pools(secure)
			gd := func() entry {
				for {
					if e := g[rng.Intn(len(g))]; e.Manner == "good" || !secure {
						return e
					}
				}
			}
			add(secure, "none", reached[rng.Intn(len(reached))], x, gd())
			add(secure, []string{"none", "refused"}[rng.Intn(2)], x, sil[(i+3)%len(sil)], gd()) // two silent upstreams in a row
			add(secure, "refused", x, reached[rng.Intn(len(reached))], gd(), gd())
		}
	}
	return out
}

// ---- (B) reuse -------------------------------------------------------------------------------------------

func runReuse(rec *vcommon.Rec, c *anyCase) (stalled bool) {
	rec.Mark(c)
	s, err := build([]entry{{Kind: c.Kind, Scheme: c.Scheme, Host: c.Host, Manner: "good"}}, "none", c.Secure)
	if err != nil {
		rec.Inconclusive("fixture: "+err.Error(), c)
		return false
	}
	defer s.close()
	// the sleep sits inside the client's own connect lock: correct code is unaffected, code that lost the lock
	// lets every concurrent connection see "no session yet"
	verifhook.Set("upstream.locked", func() { time.Sleep(150 * time.Millisecond) })
	defer verifhook.Set("upstream.locked", nil)
	lockedBefore := verifhook.Count("upstream.locked")
	sessionsBefore := verifhook.Count("server.session") // sessions the real servers of this process have accepted

	res := make([]*connResult, c.M)
	var wg sync.WaitGroup
	start := make(chan struct{})
	for i := 0; i < c.M; i++ {
		wg.Add(1)
		go func(i int) {
			defer wg.Done()
			<-start
			res[i] = s.connect(uint64(c.Seed)*64+uint64(i)+1, 4096, stdWait, true)
		}(i)
	}
	close(start)
	wg.Wait()
	physWave1 := s.eps[0].Physical()
	// with all of them still open: a local connection for a channel the server does not offer (it is refused, which is
	// C03's subject; the session has nothing to do with it), then two more for the real channel, one after the other
	if x, err := s.cl.DialRefused(); err == nil {
		x.Write([]byte("hello?"))
		gone := e2e.Go(func() {
			b := make([]byte, 64)
			for {
				if _, e := x.Read(b); e != nil {
					return
				}
			}
		})
		if e2e.Wait(gone) == e2e.Done {
			rec.Stat("reuse:refused_channel_connections_made", 1)
		}
		x.Close()
	}
	var later []*connResult
	for i := 0; i < 2; i++ {
		later = append(later, s.connect(uint64(c.Seed)*64+uint64(c.M+i)+1, 4096, stdWait, true))
	}
	physEnd := s.eps[0].Physical()
	sessions := verifhook.Count("server.session") - sessionsBefore
	bad, inconcl := 0, 0
	var outcomes []string
	for _, r := range append(append([]*connResult{}, res...), later...) {
		switch {
		case r.Outcome == "inconclusive" || r.Outcome == "harness-error" || (r.Data != nil && r.Data.Inconclusive):
			inconcl++
		case r.Outcome == "stalled":
			stalled = true
			bad++
		case r.Outcome != "served" || r.By != "E0" || r.Data != nil:
			bad++
		}
		if len(outcomes) < 40 {
			outcomes = append(outcomes, r.short())
		}
		r.done()
	}
	obs := map[string]interface{}{"physical_connections_after_concurrent_wave": physWave1, "physical_connections_at_end": physEnd,
		"logical_connections": c.M + 2, "not_served_correctly": bad, "outcomes": outcomes, "sessions_accepted_by_the_server": sessions,
		"visits_of_the_locked_open_path": verifhook.Count("upstream.locked") - lockedBefore}
	rec.Seen("reuse(kind,scheme,host,m,secure)", fmt.Sprintf("%s|%s|%s|%d|%v", c.Kind, c.Scheme, c.Host, c.M, c.Secure))
	if inconcl > 0 {
		rec.Case(c.key(), false)
		rec.Inconclusive("busy / fixture problem during the concurrent opens", c)
		return
	}
	rec.Case(c.key(), true)
	rec.Stat("reuse:logical_connections_carrying_verified_data", int64(c.M+2-bad))
	rec.StatMax("reuse:physical_connections_for_one_wave", physWave1)
	// the relay's count is the physical witness; the server's own count of accepted sessions corroborates it
	// (a connection from elsewhere on the machine that strays into the relay's port is no session of this client)
	switch {
	case physWave1 > 1 && sessions > 1:
		rec.Violation("reuse:several-physical-sessions-for-concurrent-connections", c, obs)
	case physEnd > physWave1 && sessions > 1:
		rec.Violation("reuse:new-physical-session-although-one-is-up", c, obs)
	case physEnd > 1:
		rec.Note("reuse: relay counted more connections than the server accepted sessions (stray connection?)", obs)
	}
	if bad > 0 {
		if stalled {
			obs["goroutines"] = e2e.Clip(e2e.Stacks(), 40000)
		}
		rec.Violation("reuse:concurrent-connection-not-served", c, obs)
	}
	return
}

// ---- (C) loss histories ------------------------------------------------------------------------------------

// runComeback: the first listed upstream is down when the client starts, so the session is set up with the second one.
// Then the first one comes up, and later the session with the second one is lost: the reference model walks the list in
// its order again, so the next local connection is served by the FIRST upstream.
func runComeback(rec *vcommon.Rec, c *anyCase) (stalled bool) {
	rec.Mark(c)
	s, err := build([]entry{{Kind: c.Kind, Scheme: c.Scheme, Host: c.Host, Manner: "good"}, {Kind: c.Kind, Scheme: c.Scheme, Host: c.Host, Manner: "good"}}, "none", c.Secure)
	if err != nil {
		rec.Inconclusive("fixture: "+err.Error(), c)
		return false
	}
	defer func() { c.hold(); s.close() }()
	key := uint64(c.Seed) * 64
	rec.Seen("loss(kind,how,when,secure)", fmt.Sprintf("%s|%s|%s|%v", c.Kind, c.How, c.When, c.Secure))
	rec.Seen("loss(kind,scheme,host)", c.Kind+"|"+c.Scheme+"|"+c.Host)
	s.eps[0].StopServer()
	s.eps[0].CutAll(true)
	first := s.connect(key+1, 2000, stdWait, false)
	obs := map[string]interface{}{"first_connection(first upstream down)": first.short()}
	if first.Outcome != "served" || first.By != "E1" || first.Data != nil {
		rec.Case(c.key(), first.Outcome != "inconclusive" && first.Outcome != "harness-error")
		if first.Outcome == "inconclusive" || first.Outcome == "harness-error" || (first.Data != nil && first.Data.Inconclusive) {
			rec.Inconclusive("first connection: "+first.short(), c)
		} else {
			rec.Violation("failover:gives-up-although-a-good-upstream-is-listed:refused>good", c, obs)
		}
		return first.Outcome == "stalled"
	}
	if err := s.eps[0].RestartServer(); err != nil {
		rec.Case(c.key(), false)
		rec.Inconclusive("fixture: server start failed: "+err.Error(), c)
		return false
	}
	// a connection while both are up stays on the session that exists
	mid := s.connect(key+2, 1000, stdWait, false)
	obs["connection_while_both_are_up"] = mid.short()
	s.eps[1].CutAll(c.How == "earlier-upstream-comes-back-rst")
	time.Sleep(500 * time.Millisecond)
	next := s.connect(key+3, 2000, stdWait, false)
	obs["next_local_connection_after_the_loss"] = next.short()
	obs["client_connect_calls"] = s.cl.Trace.Trials()
	obs["physical_connections_per_entry"] = s.physical()
	if next.Outcome == "inconclusive" || next.Outcome == "harness-error" || (next.Data != nil && next.Data.Inconclusive) {
		rec.Case(c.key(), false)
		rec.Inconclusive("next connection: "+next.short(), c)
		return false
	}
	rec.Case(c.key(), true)
	rec.Stat("loss:histories_judged", 1)
	switch {
	case next.Outcome == "served" && next.By == "E0" && next.Data == nil:
		rec.Stat("loss:list_order_restored_after_loss", 1)
	case next.Outcome == "served" && next.By != "E0":
		rec.Violation("reconnect:list-order-not-followed-after-loss:served-by-a-later-upstream-although-the-first-is-up", c, obs)
	case next.Outcome == "served":
		rec.Violation("reconnect:next-connection-data-fails-after-loss:"+next.Data.Kind, c, obs)
	default:
		if next.Outcome == "stalled" {
			obs["goroutines"] = e2e.Clip(e2e.Stacks(), 40000)
		}
		rec.Violation("reconnect:next-connection-fails-after-"+c.How, c, obs)
	}
	return next.Outcome == "stalled"
}

func runLoss(rec *vcommon.Rec, c *anyCase) (stalled bool) {
	if strings.HasPrefix(c.How, "earlier-upstream-comes-back") {
		return runComeback(rec, c)
	}
	rec.Mark(c)
	entries := []entry{{Kind: c.Kind, Scheme: c.Scheme, Host: c.Host, Manner: "good"}}
	if c.How == "server-gone" {
		entries = append(entries, entry{Kind: "tcp", Manner: "good"})
	}
	s, err := build(entries, "none", c.Secure)
	if err != nil {
		rec.Inconclusive("fixture: "+err.Error(), c)
		return false
	}
	defer func() { c.hold(); s.close() }()
	ep := s.eps[0]
	key := uint64(c.Seed) * 64
	long := func(d <-chan struct{}) e2e.Outcome { return e2e.C16WaitLocal(d, s.progress, 100*time.Second) }
	how := c.How
	if c.When != "" && c.When != "idle" {
		how += "-" + c.When
	} else if strings.HasPrefix(c.How, "cut") {
		how += "-while-idle"
	}
	rec.Seen("loss(kind,how,when,secure)", fmt.Sprintf("%s|%s|%s|%v", c.Kind, c.How, c.When, c.Secure))
	rec.Seen("loss(kind,scheme,host)", c.Kind+"|"+c.Scheme+"|"+c.Host)

	// a session is up and has carried data
	first := s.connect(key+1, 3000, stdWait, c.When == "mid-transfer")
	if first.Outcome != "served" || first.By != "E0" || first.Data != nil {
		first.done()
		rec.Case(c.key(), first.Outcome != "inconclusive" && first.Outcome != "harness-error")
		if first.Outcome == "inconclusive" || first.Outcome == "harness-error" || (first.Data != nil && first.Data.Inconclusive) {
			rec.Inconclusive("first connection: "+first.short(), c)
		} else {
			rec.Violation("failover:gives-up-although-a-good-upstream-is-listed:good", c, map[string]interface{}{"outcome": first.short(), "client_connect_calls": s.cl.Trace.Trials()})
		}
		return first.Outcome == "stalled"
	}
	physBefore := ep.Physical()
	sessionsBefore := verifhook.Count("server.session") // sessions accepted by the real servers of this process

	lose := func() {
		switch c.How {
		case "cut-fin":
			ep.CutAll(false)
		case "cut-rst":
			ep.CutAll(true)
		case "server-restart", "server-restart-attempt-while-down", "server-gone":
			// what a client sees when the server process exits: listener gone, connections reset
			ep.StopServer()
			ep.CutAll(true)
		case "black-hole":
			ep.SetBlackHole(true)
		}
	}
	var during *connResult
	transferInFlight := false
	switch c.When {
	case "mid-transfer":
		reached := make(chan struct{})
		var once sync.Once
		calls := 0
		seg := func() int {
			calls++
			if calls == 24 {
				once.Do(func() { close(reached) })
			}
			return 16384
		}
		big := &e2e.Stream{Key: key*4 + 9, Len: 48 << 20, Seg: seg}
		back := &e2e.Stream{Key: key*4 + 10, Len: 48 << 20, Seg: func() int { return 16384 }}
		var tf *e2e.Failure
		tdone := e2e.Go(func() { tf = e2e.Duplex(first.app, first.tgt, big, back, "c2t", "t2c", nil) })
		select {
		case <-reached:
		case <-tdone:
		}
		lose()
		<-tdone
		transferInFlight = tf != nil
		first.done()
	case "during-open":
		// the loss happens inside a connection attempt: after the client has decided to use the session it
		// has, before it opens the logical stream on it
		var fired int32
		verifhook.Set("upstream.unlocked", func() {
			if atomic.CompareAndSwapInt32(&fired, 0, 1) {
				lose()
			}
		})
		during = s.connect(key+2, 1000, stdWait, false)
		verifhook.Set("upstream.unlocked", nil)
		if atomic.LoadInt32(&fired) == 0 {
			rec.Case(c.key(), false)
			rec.Inconclusive("hook upstream.unlocked never reached", c)
			return during.Outcome == "stalled"
		}
	default:
		lose()
	}

	obs := map[string]interface{}{"physical_connections_before_loss": physBefore}
	if during != nil {
		obs["connection_being_opened_during_the_loss"] = during.short()
	}
	if c.When == "mid-transfer" {
		obs["transfer_was_in_flight_at_the_cut"] = transferInFlight
		rec.Stat("loss:mid-transfer_cut_hit_a_running_transfer", b2i(transferInFlight))
	}

	switch c.How {
	case "black-hole":
		// Nothing tells the client that the carrier is gone; only the multiplexer's keep-alive can find out.
		// The session counts as lost once the client itself gives up a logical connection it was opening on it.
		victim := s.connect(key+3, 1000, long, false)
		obs["connection_opened_into_the_black_hole"] = victim.short()
		if victim.Outcome != "closed" {
			rec.Case(c.key(), false)
			rec.Inconclusive("black-holed session was never seen dead by the client ("+victim.short()+"): no loss to recover from", c)
			return victim.Outcome == "stalled"
		}
		ep.SetBlackHole(false)
	case "server-restart-attempt-while-down":
		down := s.connect(key+3, 1000, stdWait, false)
		obs["connection_attempted_while_the_server_was_down"] = down.short()
		if down.Outcome == "stalled" {
			rec.Case(c.key(), true)
			obs["goroutines"] = e2e.Clip(e2e.Stacks(), 40000)
			rec.Violation("failover:stalls:refused", c, obs)
			return true
		}
		fallthrough
	case "server-restart":
		if err := ep.RestartServer(); err != nil {
			rec.Case(c.key(), false)
			rec.Inconclusive("fixture: server restart failed: "+err.Error(), c)
			return false
		}
		if c.Kind == "dns" {
			// a datagram carrier gives no close signal: the new server answers the old session's requests with errors and
			// the client has to conclude from them (or from its keep-alive) that the session is gone. A connection opened
			// meanwhile is the one the client gives up; 100 s without any progress is far beyond every timer involved.
			victim := s.connect(key+3, 1000, long, false)
			obs["connection_opened_on_the_forgotten_session"] = victim.short()
			if victim.Outcome == "stalled" {
				rec.Case(c.key(), true)
				obs["goroutines"] = e2e.Clip(e2e.Stacks(), 40000)
				rec.Violation("reconnect:session-the-server-forgot-is-never-given-up:"+c.Kind, c, obs)
				return true
			}
		}
	}
	// let the loss reach the client (FIN/RST delivery on loopback; scripted delay, not a verdict)
	time.Sleep(500 * time.Millisecond)

	if c.Burst > 0 {
		return runBurst(rec, c, s, how, physBefore, sessionsBefore, obs)
	}
	want := "E0"
	if c.How == "server-gone" {
		want = "E1"
	}
	next := s.connect(key+4, 3000, stdWait, c.Hold > 0)
	defer next.done()
	obs["next_local_connection"] = next.short()
	obs["expected_server"] = want
	obs["physical_connections_per_entry_after"] = s.physical()
	obs["client_connect_calls"] = s.cl.Trace.Trials()
	switch {
	case next.Outcome == "inconclusive" || next.Outcome == "harness-error" || (next.Data != nil && next.Data.Inconclusive):
		rec.Case(c.key(), false)
		rec.Inconclusive("next connection: "+next.short(), c)
		return false
	}
	rec.Case(c.key(), true)
	rec.Stat("loss:histories_judged", 1)
	if next.Outcome == "served" && next.By == want && next.Data == nil {
		rec.Stat("loss:next_connection_served", 1)
		rec.Stat("bytes_verified", 6000)
		if want == "E0" && ep.Physical() <= physBefore {
			rec.Violation("harness:served-after-loss-without-a-new-physical-connection", c, obs)
		}
		if c.Hold > 0 && next.app != nil && next.tgt != nil {
			// the new session must outlive whatever is left of the lost one (its timers run out within a minute)
			physNew, callsNew := ep.Physical(), s.cl.Trace.Count()
			time.Sleep(time.Duration(c.Hold) * time.Second)
			f := e2e.Duplex(next.app, next.tgt, &e2e.Stream{Key: key*4 + 21, Len: 2000}, &e2e.Stream{Key: key*4 + 22, Len: 2000}, "c2t", "t2c", nil)
			again := s.connect(key+5, 1000, stdWait, false)
			obs["held_connection_after_the_hold"] = "fine"
			if f != nil {
				obs["held_connection_after_the_hold"] = f.Kind
			}
			obs["new_connection_after_the_hold"] = again.short()
			obs["physical_connections_after_the_hold"] = ep.Physical()
			obs["client_connect_calls_after_the_hold"] = s.cl.Trace.Trials()
			obs["sessions_accepted_by_the_servers_since_the_loss"] = verifhook.Count("server.session") - sessionsBefore
			switch {
			case f != nil && f.Inconclusive:
				rec.Inconclusive("hold: "+f.Kind, c)
			case f != nil:
				rec.Violation(fmt.Sprintf("reconnect:new-session-does-not-survive-%ds:held-connection:%s", c.Hold, f.Kind), c, obs)
			case again.Outcome == "inconclusive" || again.Outcome == "harness-error":
				rec.Inconclusive("hold: "+again.short(), c)
			case again.Outcome != "served" || again.By != want || again.Data != nil:
				rec.Violation(fmt.Sprintf("reconnect:new-session-does-not-survive-%ds:new-connection-fails", c.Hold), c, obs)
			case ep.Physical() != physNew && s.cl.Trace.Count() != callsNew:
				// the relay's count is the physical witness, the client's own Connect calls on its upstream corroborate it (a
				// connection from elsewhere on the machine that strays into the relay's port is no session of this client)
				rec.Violation(fmt.Sprintf("reconnect:new-session-does-not-survive-%ds:another-physical-session-was-needed", c.Hold), c, obs)
			case ep.Physical() != physNew:
				rec.Note("hold: the relay counted a connection although the client made no Connect call on its upstream (stray connection?)", obs)
				rec.Stat("loss:new_session_alive_after_hold", 1)
			default:
				rec.Stat("loss:new_session_alive_after_hold", 1)
			}
		}
		return false
	}
	// diagnosis: does it recover at all, and when?
	var laterTries []string
	tries, gap := 3, time.Second
	if c.Probe {
		tries, gap = 16, 5*time.Second
	}
	for i := 0; i < tries && next.Outcome != "stalled"; i++ {
		time.Sleep(gap)
		p := s.connect(key+10+uint64(i), 500, stdWait, false)
		laterTries = append(laterTries, fmt.Sprintf("+%ds: %s", int(gap.Seconds())*(i+1), p.short()))
		if p.Outcome == "served" || p.Outcome == "stalled" {
			break
		}
	}
	obs["later_local_connections(diagnostic)"] = laterTries
	if next.Outcome == "stalled" {
		obs["goroutines"] = e2e.Clip(e2e.Stacks(), 40000)
	}
	switch {
	case next.Outcome == "served" && next.By != want:
		rec.Violation("reconnect:wrong-upstream-after-"+how, c, obs)
	case next.Outcome == "served":
		obs["transfer"] = next.Data.Info
		rec.Violation("reconnect:next-connection-data-fails-after-"+how+":"+next.Data.Kind, c, obs)
	default:
		rec.Violation("reconnect:next-connection-fails-after-"+how, c, obs)
	}
	return next.Outcome == "stalled"
}

// runBurst: after the loss, c.Burst local connections arrive at once. All of them find the dead session; the
// reference model gives them ONE new physical session which all of them share, each is served with its own
// data, and it stays that way. The hooks only spread the interleavings (sleeps between the client's lock
// release and its stream open, staggered per visit; a short sleep inside the lock before the physical open).
func runBurst(rec *vcommon.Rec, c *anyCase, s *scenario, how string, physBefore, sessionsBefore int64, obs map[string]interface{}) (stalled bool) {
	ep := s.eps[0]
	rng := vcommon.NewRand(c.Seed, "c16/burst")
	step := []time.Duration{2, 5, 9, 16, 30}[rng.Intn(5)] * time.Millisecond
	inLock := []time.Duration{0, 1, 4}[rng.Intn(3)] * time.Millisecond
	var visits int64
	verifhook.Set("upstream.unlocked", func() {
		k := atomic.AddInt64(&visits, 1) - 1
		time.Sleep(time.Duration(k%int64(c.Burst+1)) * step)
	})
	verifhook.Set("upstream.locked", func() { time.Sleep(inLock) })
	defer verifhook.Set("upstream.unlocked", nil)
	defer verifhook.Set("upstream.locked", nil)
	obs["stagger_step_ms"], obs["sleep_inside_lock_ms"] = step.Milliseconds(), inLock.Milliseconds()
	rec.Seen("burst(kind,how,when,m,secure)", fmt.Sprintf("%s|%s|%s|%d|%v", c.Kind, c.How, c.When, c.Burst, c.Secure))

	key := uint64(c.Seed)*64 + 20
	res := make([]*connResult, c.Burst)
	var wg sync.WaitGroup
	start := make(chan struct{})
	for i := 0; i < c.Burst; i++ {
		wg.Add(1)
		go func(i int) {
			defer wg.Done()
			<-start
			res[i] = s.connect(key+uint64(i), 4096, stdWait, true)
		}(i)
	}
	close(start)
	wg.Wait()
	verifhook.Set("upstream.unlocked", nil)
	verifhook.Set("upstream.locked", nil)
	physBurst, sessBurst := ep.Physical()-physBefore, verifhook.Count("server.session")-sessionsBefore

	// "and it stays that way": every connection of the burst, still open, carries a second keyed exchange, one
	// more local connection is opened, and the counters are read again at the end
	bad, inconcl, later := 0, 0, 0
	var outcomes []string
	for i, r := range res {
		switch {
		case r.Outcome == "inconclusive" || r.Outcome == "harness-error" || (r.Data != nil && r.Data.Inconclusive):
			inconcl++
		case r.Outcome == "stalled":
			stalled = true
			bad++
		case r.Outcome != "served" || r.By != "E0" || r.Data != nil:
			bad++
		}
		outcomes = append(outcomes, r.short())
		_ = i
	}
	if bad == 0 && inconcl == 0 {
		fails := make([]*e2e.Failure, len(res))
		var wg2 sync.WaitGroup
		for i, r := range res {
			wg2.Add(1)
			go func(i int, r *connResult) {
				defer wg2.Done()
				k := (key + uint64(i)) * 4
				ab := &e2e.Stream{Key: k + 3, Len: 6000}
				ba := &e2e.Stream{Key: k + 3 + 1<<40, Len: 6000}
				fails[i] = e2e.Duplex(r.app, r.tgt, ab, ba, "c2t", "t2c", []uint64{ab.Key, ba.Key, k + 1, k + 2})
			}(i, r)
		}
		wg2.Wait()
		for i, f := range fails {
			switch {
			case f == nil:
				atomic.AddInt64(&s.moved, 12000)
			case f.Inconclusive:
				inconcl++
			default:
				later++
				stalled = stalled || strings.Contains(f.Kind, "stalled")
				outcomes[i] += " | second exchange: " + f.Kind
			}
		}
	}
	var after *connResult
	if bad == 0 && later == 0 && inconcl == 0 {
		after = s.connect(key+uint64(c.Burst)+1, 3000, stdWait, false)
		obs["one_more_local_connection_afterwards"] = after.short()
		switch {
		case after.Outcome == "inconclusive" || after.Outcome == "harness-error" || (after.Data != nil && after.Data.Inconclusive):
			inconcl++
		case after.Outcome != "served" || after.By != "E0" || after.Data != nil:
			later++
			stalled = stalled || after.Outcome == "stalled"
		}
	}
	for _, r := range res {
		r.done()
	}
	physEnd, sessEnd := ep.Physical()-physBefore, verifhook.Count("server.session")-sessionsBefore
	obs["burst"] = c.Burst
	obs["outcomes"] = outcomes
	obs["new_physical_connections_at_the_relay(after_burst,at_end)"] = []int64{physBurst, physEnd}
	obs["new_sessions_accepted_by_the_server(after_burst,at_end)"] = []int64{sessBurst, sessEnd}
	obs["client_connect_calls"] = s.cl.Trace.Trials()
	if inconcl > 0 {
		rec.Case(c.key(), false)
		rec.Inconclusive("busy / fixture problem during the burst after the loss", c)
		return
	}
	rec.Case(c.key(), true)
	rec.Stat("burst:histories_judged", 1)
	rec.Stat("burst:connections_served_with_verified_data", int64(c.Burst-bad))
	rec.StatMax("burst:new_physical_sessions_for_one_burst", physEnd)
	if stalled {
		obs["goroutines"] = e2e.Clip(e2e.Stacks(), 40000)
	}
	// the relay's count is the physical witness, the server's own count of accepted sessions corroborates it
	switch {
	case physEnd > 1 && sessEnd > 1:
		rec.Violation("reconnect:burst:several-new-physical-sessions-after-"+how, c, obs)
	case physEnd > 1:
		rec.Note("burst: relay counted more new connections than the server accepted sessions (stray connection?)", obs)
	}
	if bad > 0 {
		rec.Violation("reconnect:burst:connection-not-served-after-"+how, c, obs)
	} else if later > 0 {
		rec.Violation("reconnect:burst:connection-breaks-later-after-"+how, c, obs)
	}
	return
}

func b2i(b bool) int64 {
	if b {
		return 1
	}
	return 0
}

func reuseCases(rec *vcommon.Rec) []*anyCase {
	var out []*anyCase
	spell := speller{}
	hosts := append([]string{""}, hostSpellings()...)
	for i, k := range listKinds {
		for j, m := range []int{2, 8, 32} {
			e := spellHost(spell.next(entry{Kind: k}), hosts[(i+j)%len(hosts)])
			out = append(out, &anyCase{Part: "reuse", Kind: k, Scheme: e.Scheme, Host: e.Host, M: m, Secure: (i+j)%2 == 1 && rec.Thorough(), Seed: rec.Seed()*100000 + 60000 + int64(len(out))})
		}
	}
	if rec.Thorough() {
		for _, k := range listKinds {
			e := spellHost(spell.next(entry{Kind: k}), hosts[len(out)%len(hosts)])
			out = append(out, &anyCase{Part: "reuse", Kind: k, Scheme: e.Scheme, Host: e.Host, M: 32, Secure: true, Seed: rec.Seed()*100000 + 60000 + int64(len(out))})
		}
	}
	return out
}

func lossCases(rec *vcommon.Rec) (fast, slow []*anyCase) {
	n := 0
	spell := speller{}
	lossHosts := append([]string{""}, hostSpellings()...)
	hostTurn := map[string]int{}
	mk := func(kind, how, when string, secure bool) *anyCase {
		n++
		// the spellings of the kind's scheme and of the host take turns (stream carriers; the datagram carriers of the slow
		// histories keep the default)
		e := spell.next(entry{Kind: kind})
		if kind == "tcp" || kind == "tcp+tls" || kind == "ws" {
			e = spellHost(e, lossHosts[hostTurn[kind]%len(lossHosts)])
			hostTurn[kind]++
		}
		return &anyCase{Part: "loss", Kind: kind, Scheme: e.Scheme, Host: e.Host, How: how, When: when, Secure: secure, Seed: rec.Seed()*100000 + 70000 + int64(n)}
	}
	secures := []bool{false}
	if rec.Thorough() {
		secures = []bool{false, true}
	}
	for _, sec := range secures {
		for _, k := range []string{"tcp", "tcp+tls", "ws"} {
			for _, how := range []string{"cut-fin", "cut-rst"} {
				for _, when := range []string{"idle", "mid-transfer", "during-open"} {
					fast = append(fast, mk(k, how, when, sec))
				}
			}
			fast = append(fast, mk(k, "server-restart", "", sec))
			fast = append(fast, mk(k, "server-gone", "", sec))
		}
		fast = append(fast, mk("tcp", "server-restart-attempt-while-down", "", sec), mk("ws", "server-restart-attempt-while-down", "", sec))
		for _, k := range []string{"tcp", "tcp+tls", "ws"} {
			fast = append(fast, mk(k, "earlier-upstream-comes-back", "", sec), mk(k, "earlier-upstream-comes-back-rst", "", sec))
		}
	}
	// a burst of local connections after the cut; the interleaving is a race, so every history runs several times
	for rep := 0; rep < rec.Pick(3, 8); rep++ {
		for _, sec := range secures {
			for _, k := range []string{"tcp", "tcp+tls", "ws"} {
				for _, how := range []string{"cut-fin", "cut-rst"} {
					for _, when := range []string{"idle", "mid-transfer"} {
						for _, m := range []int{2, 8} {
							b := mk(k, how, when, sec)
							b.Burst = m
							fast = append(fast, b)
						}
					}
				}
			}
		}
	}
	// the new session must still be there a good minute later (the lost session's own timers have run out by then)
	for _, k := range []string{"tcp", "tcp+tls", "ws"} {
		h := mk(k, "cut-fin", "idle", false)
		h.Hold = 70
		slow = append(slow, h)
	}
	h := mk("tcp", "cut-rst", "mid-transfer", false)
	h.Hold = 70
	slow = append(slow, h)
	// a carrier without any close signal (KCP), with and without the pre-shared key: the loss is only found by the keep-alive
	slow = append(slow, mk("udp", "black-hole", "", false), mk("udp+secret", "black-hole", "", false))
	// the DNS tunnel: the server forgets the session (restart), or the path swallows everything
	slow = append(slow, mk("dns", "server-restart", "", false), mk("dns", "black-hole", "", false))
	if rec.Thorough() {
		fast[0].Probe = true // tcp, FIN while idle: keep trying for 80 s to see whether and when the client recovers (diagnostic)
		for _, k := range []string{"tcp", "ws"} {
			slow = append(slow, mk(k, "black-hole", "", false))
		}
	}
	return
}

// ---- driver --------------------------------------------------------------------------------------------------

func runAny(rec *vcommon.Rec, c *anyCase) bool {
	switch c.Part {
	case "list", "silent":
		return runList(rec, c)
	case "reuse":
		return runReuse(rec, c)
	case "loss":
		return runLoss(rec, c)
	}
	return false
}

func TestVerifC16(t *testing.T) {
	e2e.Quiet()
	rec := vcommon.Open()
	defer rec.Close()
	if e2e.C16HasIPv6Loopback() {
		rec.Seen("ipv6-loopback(::1)", "available: hosts are also written as [::1]")
	} else {
		rec.Seen("ipv6-loopback(::1)", "absent: the [::1] host spellings are skipped")
		rec.Note("this machine has no ::1 loopback: upstream hosts are written as localhost / 127.0.0.1 only", nil)
	}
	if rec.Replay != nil {
		var c anyCase
		if err := json.Unmarshal(rec.Replay, &c); err != nil {
			t.Fatal(err)
		}
		runAny(rec, &c)
		return
	}
	lossFast, lossSlow := lossCases(rec)
	// miekg/dns serves every DNS server of a process from one handler table ("." is registered by whichever server
	// started last): a DNS endpoint needs a process of its own. C16_PART=dns:<n> runs the n-th DNS loss case alone.
	var dnsLoss, otherSlow []*anyCase
	for _, c := range lossSlow {
		if c.Kind == "dns" {
			dnsLoss = append(dnsLoss, c)
		} else {
			otherSlow = append(otherSlow, c)
		}
	}
	lossSlow = otherSlow
	if part := os.Getenv("C16_PART"); strings.HasPrefix(part, "dns:") {
		n := 0
		fmt.Sscanf(part[4:], "%d", &n)
		if n >= 0 && n < len(dnsLoss) {
			runAny(rec, dnsLoss[n])
		}
		return
	}
	if os.Getenv("C16_PART") == "slow" {
		// every case here waits for a long time by construction (a silent upstream, a black-holed carrier):
		// all of them run at once and share the wait
		var wg, verdicts sync.WaitGroup
		all := append(silentCases(rec), lossSlow...)
		verdicts.Add(len(all))
		for _, c := range all {
			var once sync.Once
			c.judged = func() { once.Do(verdicts.Done); verdicts.Wait() }
			wg.Add(1)
			go func(c *anyCase) {
				defer wg.Done()
				defer c.judged()
				runAny(rec, c)
			}(c)
			time.Sleep(20 * time.Millisecond)
		}
		wg.Wait()
		return
	}
	// main part: sequential within a child (the hooks are process-wide), sharded over children
	var items []*anyCase
	items = append(items, lossFast...)
	items = append(items, reuseCases(rec)...)
	items = append(items, listCases(rec)...)
	stalls := map[string]int{}
	for i, c := range items {
		if !rec.Mine(i) {
			continue
		}
		if stalls[c.Part] >= 3 {
			rec.Stat("skipped_after_three_stalls:"+c.Part, 1)
			continue
		}
		if runAny(rec, c) {
			stalls[c.Part]++
			if stalls[c.Part] == 3 {
				rec.Note("three stalled cases in this child: the remaining cases of this part are skipped", c.Part)
			}
		}
	}
}
