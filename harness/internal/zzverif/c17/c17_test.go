// C17: orderly close delivers all data, then end-of-stream, both ways (DESIGN.md §4 C17).
package c17

import (
	"encoding/binary"
	"encoding/json"
	"fmt"
	"io"
	"net"
	"os"
	"runtime"
	"strings"
	"sync"
	"sync/atomic"
	"testing"
	"time"

	"github.com/bokysan/socketace/v2/internal/verifhook"
	"github.com/bokysan/socketace/v2/internal/zzverif/e2e"
	"github.com/bokysan/socketace/v2/internal/zzverif/vcommon"
)

type c17Case struct {
	Carrier string `json:"carrier"`
	Closer  string `json:"closer"`  // "app" | "target"
	Mode    string `json:"mode"`    // "close" (full close right after the last write) | "half" (shutdown of the write side, then read until the end)
	Len     int64  `json:"payload"` // bytes written before the close
	Seg     int    `json:"write_size"`
	Others  int    `json:"other_busy_connections"`
	Reverse string `json:"reverse"`    // "idle" | "busy": the other end is itself writing while the closer closes
	Hook    string `json:"hook_delay"` // "", "yield", "5ms" at pipe.beforeCloseUp/Down
	Seed    int64  `json:"seed"`
	Dump    bool   `json:"pipe_debug,omitempty"` // SOCKETACE_PIPE_DEBUG=1: PipeData copies through its traffic-dump path
}

var payloads = []int64{0, 1, 4096, 32768, 65537, 1 << 20, 3 << 20}

func lenName(n int64) string {
	switch {
	case n == 0:
		return "0"
	case n == 1:
		return "1"
	case n <= 65537:
		return "<=64K+1"
	}
	return ">=1MiB"
}

type halfCloser interface{ CloseWrite() error }

func setHook(mode string) {
	var f func()
	switch mode {
	case "yield":
		f = func() {
			for i := 0; i < 20; i++ {
				runtime.Gosched()
			}
		}
	case "5ms":
		f = func() { time.Sleep(5 * time.Millisecond) }
	}
	verifhook.Set("pipe.beforeCloseUp", f)
	verifhook.Set("pipe.beforeCloseDown", f)
}

// busyOthers keeps n other logical connections of the same session echoing until stop is closed.
func busyOthers(p *e2e.Pair, n int, seed int64, stop chan struct{}) *e2e.Failure {
	for i := 0; i < n; i++ {
		app, tgt, o, err := p.Open("echo")
		if err != nil || o != e2e.Done {
			return &e2e.Failure{Kind: "other-open-failed", Inconclusive: o == e2e.Inconclusive, Info: map[string]interface{}{"err": fmt.Sprint(err), "outcome": o.String()}}
		}
		go func(i int, app, tgt net.Conn) {
			defer app.Close()
			defer tgt.Close()
			k := uint64(seed)*100 + uint64(i)*2 + 50
			for {
				select {
				case <-stop:
					return
				default:
				}
				if f := e2e.Duplex(app, tgt, &e2e.Stream{Key: k, Len: 20000}, &e2e.Stream{Key: k + 1, Len: 20000}, "c2t", "t2c", nil); f != nil {
					return
				}
			}
		}(i, app, tgt)
	}
	return nil
}

func runCase(rec *vcommon.Rec, p *e2e.Pair, c *c17Case) (stalled bool) {
	c.Dump = os.Getenv("SOCKETACE_PIPE_DEBUG") == "1"
	rec.Mark(c)
	key := fmt.Sprintf("%s/%s/%s/%d/%d/%d/%s/%s", c.Carrier, c.Closer, c.Mode, c.Len, c.Seg, c.Others, c.Reverse, c.Hook)
	sigBase := fmt.Sprintf("%s:closer=%s:%s", c.Carrier, c.Closer, c.Mode)
	if c.Dump {
		key += "/dump"
		sigBase = fmt.Sprintf("%s(traffic-dump):closer=%s:%s", c.Carrier, c.Closer, c.Mode)
	}
	setHook(c.Hook)
	defer setHook("")
	stop := make(chan struct{})
	defer close(stop)
	if f := busyOthers(p, c.Others, c.Seed, stop); f != nil {
		if f.Inconclusive {
			rec.Inconclusive(f.Kind, c)
		} else {
			rec.Case(key, true)
			rec.Violation(sigBase+":"+f.Kind, c, f.Info)
		}
		return !f.Inconclusive
	}
	app, tgt, o, err := p.Open("echo")
	if err != nil {
		rec.Case(key, true)
		rec.Violation(sigBase+":open-failed", c, err.Error())
		return true
	}
	if o != e2e.Done {
		if o == e2e.Inconclusive {
			rec.Inconclusive("busy at open", c)
			return false
		}
		rec.Case(key, true)
		rec.Violation(sigBase+":open:target-never-connected", c, map[string]interface{}{"goroutines": e2e.Clip(e2e.Stacks(), 50000)})
		return true
	}
	closer, other := app, tgt
	dir := "c2t" // direction of the payload under observation
	if c.Closer == "target" {
		closer, other = tgt, app
		dir = "t2c"
	}
	defer app.Close()
	defer tgt.Close()
	rng := vcommon.NewRand(c.Seed, "c17/"+key)
	var segf func() int
	if c.Seg > 0 {
		segf = func() int { return c.Seg }
	} else if c.Seg < 0 {
		segf = func() int { return 1 + rng.Intn(70000) }
	}
	st := &e2e.Stream{Key: uint64(c.Seed)*4 + 1, Len: c.Len, Seg: segf}
	rev := &e2e.Stream{Key: uint64(c.Seed)*4 + 2, Len: 8 << 20, Seg: func() int { return 16384 }}

	// the other end may itself be writing while the closer closes (its writes may fail: not judged)
	if c.Reverse == "busy" {
		go func() { e2e.WriteStream(other, rev) }()
		go func() {
			buf := make([]byte, 32768)
			for {
				if _, err := closer.Read(buf); err != nil {
					return
				}
			}
		}()
	}
	var f *e2e.Failure
	// writer: payload, then close immediately after the last Write returned
	wdone := e2e.Go(func() {
		if _, err := e2e.WriteStream(closer, st); err != nil {
			f = &e2e.Failure{Kind: dir + ":write-error-before-close", Info: map[string]interface{}{"err": err.Error()}}
			return
		}
		if c.Mode == "half" {
			if hc, ok := closer.(halfCloser); ok {
				hc.CloseWrite()
				return
			}
		}
		closer.Close()
	})
	// reader on the other end: exactly the payload, then end-of-stream
	var rf *e2e.Failure
	rdone := e2e.Go(func() {
		if _, rf = e2e.ReadStream(other, st, []uint64{st.Key, rev.Key}); rf != nil {
			rf.Kind = dir + ":" + rf.Kind
			return
		}
		rf = e2e.ExpectEOF(other, dir)
	})
	both := e2e.Go(func() { <-wdone; <-rdone })
	switch e2e.Wait(both) {
	case e2e.Stalled:
		if f == nil && rf == nil {
			f = &e2e.Failure{Kind: dir + ":stalled-before-end-of-stream", Info: map[string]interface{}{"goroutines": e2e.Clip(e2e.Stacks(), 60000)}}
		}
	case e2e.Inconclusive:
		rec.Inconclusive("busy at watchdog", c)
		return false
	}
	if f == nil {
		f = rf
	}
	if f == nil && c.Mode == "half" {
		// the half-closing end must not be left with a connection that never terminates:
		// the other end has seen end-of-stream and closes; the closer's read side must end
		other.Close()
		var err error
		done := e2e.Go(func() {
			buf := make([]byte, 32768)
			for err == nil {
				_, err = closer.Read(buf)
			}
		})
		switch e2e.Wait(done) {
		case e2e.Stalled:
			f = &e2e.Failure{Kind: "closer-side-never-terminates", Info: map[string]interface{}{"goroutines": e2e.Clip(e2e.Stacks(), 60000)}}
		case e2e.Inconclusive:
			rec.Inconclusive("busy at watchdog", c)
			return false
		}
	}
	rec.Case(key, true)
	rec.Seen("tuple(carrier,closer,mode,len-class,others,reverse)", fmt.Sprintf("%s|%s|%s|%s|%d|%s", c.Carrier, c.Closer, c.Mode, lenName(c.Len), c.Others, c.Reverse))
	rec.Seen("carrier", c.Carrier)
	if f == nil {
		rec.Stat("closes_verified", 1)
		rec.Stat("bytes_verified_before_eof", c.Len)
		return false
	}
	sig := fmt.Sprintf("%s:%s:len%s:reverse=%s", sigBase, f.Kind, lenName(c.Len), c.Reverse)
	rec.Violation(sig, c, f.Info)
	return strings.Contains(f.Kind, "stalled") || strings.Contains(f.Kind, "no-end") || strings.Contains(f.Kind, "never")
}

func cases(rec *vcommon.Rec, carrier string) []*c17Case {
	rng := vcommon.NewRand(rec.Seed(), "c17/"+carrier)
	var out []*c17Case
	maxLen := int64(3 << 20)
	if strings.HasPrefix(carrier, "dns") {
		maxLen = 65537
	} else if strings.HasPrefix(carrier, "udp") && !rec.Thorough() {
		maxLen = 1 << 20
	}
	hooks := []string{"", "yield", "5ms"}
	i := 0
	for _, closer := range []string{"app", "target"} {
		for _, l := range payloads {
			if l > maxLen {
				continue
			}
			modes := []string{"close"}
			if rec.Thorough() || i%3 == 0 {
				modes = append(modes, "half")
			}
			for _, m := range modes {
				others := []int{0}
				if rec.Thorough() || i%2 == 0 {
					others = append(others, 3)
				}
				for _, o := range others {
					rev := "idle"
					if (i+o)%4 == 1 && l > 0 {
						rev = "busy"
					}
					seg := []int{0, 4096, -1, 1}[rng.Intn(4)]
					if seg == 1 && l > 70000 {
						seg = 32768
					}
					if strings.HasPrefix(carrier, "dns") && o > 0 {
						o = 1
					}
					out = append(out, &c17Case{Carrier: carrier, Closer: closer, Mode: m, Len: l, Seg: seg, Others: o, Reverse: rev,
						Hook: hooks[i%3], Seed: rec.Seed()*10000 + int64(i)})
					i++
				}
			}
		}
	}
	return out
}

// runLate: the logical connection stays open and silent for longer than every timeout involved in opening
// it (35 s quick / 65 s thorough); then one end writes its payload and closes: the other end must still get
// all of it followed by end-of-stream.
func runLate(rec *vcommon.Rec, carrier, closer string, quiet time.Duration) {
	c := &c17Case{Carrier: carrier, Closer: closer, Mode: "close-after-" + fmt.Sprint(int(quiet.Seconds())) + "s-of-silence", Len: 262144, Seed: rec.Seed()*10000 + 9000}
	rec.Mark(c)
	p, err := e2e.Start(e2e.Options{Carrier: carrier, Tag: "l"})
	if err != nil {
		rec.Violation(carrier+":setup-failed", c, err.Error())
		return
	}
	defer p.Close()
	app, tgt, o, err := p.Open("echo")
	if err != nil || o != e2e.Done {
		rec.Inconclusive("late: open failed", c)
		return
	}
	defer app.Close()
	defer tgt.Close()
	time.Sleep(quiet)
	w, r, dir := app, tgt, "c2t"
	if closer == "target" {
		w, r, dir = tgt, app, "t2c"
	}
	st := &e2e.Stream{Key: uint64(c.Seed) + 1, Len: c.Len, Seg: func() int { return 32768 }}
	var wf, rf *e2e.Failure
	wd := e2e.Go(func() {
		if _, err := e2e.WriteStream(w, st); err != nil {
			wf = &e2e.Failure{Kind: dir + ":write-error-before-close", Info: map[string]interface{}{"err": err.Error()}}
			return
		}
		w.Close()
	})
	rd := e2e.Go(func() {
		if _, rf = e2e.ReadStream(r, st, nil); rf != nil {
			rf.Kind = dir + ":" + rf.Kind
			return
		}
		rf = e2e.ExpectEOF(r, dir)
	})
	out := e2e.Wait(e2e.Go(func() { <-wd; <-rd }))
	rec.Case(fmt.Sprintf("late/%s/%s", carrier, closer), out != e2e.Inconclusive)
	rec.Seen("tuple(carrier,closer,mode,len-class,others,reverse)", fmt.Sprintf("%s|%s|late|%s|0|idle", carrier, closer, lenName(c.Len)))
	f := wf
	if f == nil {
		f = rf
	}
	if out == e2e.Stalled && f == nil {
		f = &e2e.Failure{Kind: dir + ":stalled-before-end-of-stream"}
	}
	if out == e2e.Inconclusive {
		rec.Inconclusive("busy at watchdog", c)
		return
	}
	if f != nil {
		rec.Violation(fmt.Sprintf("%s:closer=%s:late:%s", carrier, closer, f.Kind), c, f.Info)
		return
	}
	rec.Stat("closes_verified", 1)
	rec.Stat("late_closes_verified", 1)
	rec.Stat("bytes_verified_before_eof", c.Len)
}

// runSiblingAbort: while one logical connection carries a paced transfer that ends with an orderly close, a sibling on
// the same session ends abnormally (its application closes with unread data pending, so its socket is reset; or its target
// does). The orderly one must still deliver everything, then end-of-stream.
func runSiblingAbort(rec *vcommon.Rec, carrier, closer, aborter string) {
	c := &c17Case{Carrier: carrier, Closer: closer, Mode: "sibling-aborts:" + aborter, Len: 1 << 20, Seed: rec.Seed()*10000 + 9500}
	rec.Mark(c)
	p, err := e2e.Start(e2e.Options{Carrier: carrier, Tag: "s"})
	if err != nil {
		rec.Violation(carrier+":setup-failed", c, err.Error())
		return
	}
	defer p.Close()
	app, tgt, o, err := p.Open("echo")
	if err != nil || o != e2e.Done {
		rec.Inconclusive("sibling: open failed", c)
		return
	}
	defer app.Close()
	defer tgt.Close()
	sapp, stgt, o, err := p.Open("echo")
	if err != nil || o != e2e.Done {
		rec.Inconclusive("sibling: second open failed", c)
		return
	}
	defer sapp.Close()
	defer stgt.Close()
	w, r, dir := app, tgt, "c2t"
	if closer == "target" {
		w, r, dir = tgt, app, "t2c"
	}
	calls := 0
	half := make(chan struct{})
	st := &e2e.Stream{Key: uint64(c.Seed) + 1, Len: c.Len, Seg: func() int {
		calls++
		if calls == 8 {
			close(half)
		}
		time.Sleep(15 * time.Millisecond) // paced: the transfer is in flight while the sibling dies
		return 16384
	}}
	var wf, rf *e2e.Failure
	wd := e2e.Go(func() {
		if _, err := e2e.WriteStream(w, st); err != nil {
			wf = &e2e.Failure{Kind: dir + ":write-error-before-close", Info: map[string]interface{}{"err": err.Error()}}
			return
		}
		w.Close()
	})
	rd := e2e.Go(func() {
		if _, rf = e2e.ReadStream(r, st, nil); rf != nil {
			rf.Kind = dir + ":" + rf.Kind
			return
		}
		rf = e2e.ExpectEOF(r, dir)
	})
	// the sibling: its far end keeps sending, its near end reads a little and closes with the rest unread
	ab := e2e.Go(func() {
		select {
		case <-half:
		case <-wd:
			return
		}
		near, far := sapp, stgt
		if aborter == "target" {
			near, far = stgt, sapp
		}
		stop := make(chan struct{})
		flood := e2e.Go(func() {
			buf := make([]byte, 8192)
			for i := 0; i < 4096; i++ {
				select {
				case <-stop:
					return
				default:
				}
				if _, err := far.Write(buf); err != nil {
					return
				}
			}
		})
		b := make([]byte, 1024)
		io.ReadFull(near, b)
		time.Sleep(100 * time.Millisecond)
		if l, ok := near.(interface{ SetLinger(int) error }); ok {
			l.SetLinger(0)
		}
		near.Close()
		time.Sleep(300 * time.Millisecond)
		close(stop)
		far.Close()
		<-flood
		rec.Stat("siblings_aborted", 1)
	})
	out := e2e.Wait(e2e.Go(func() { <-wd; <-rd; <-ab }))
	rec.Case(fmt.Sprintf("sibling/%s/%s/%s", carrier, closer, aborter), out != e2e.Inconclusive)
	rec.Seen("tuple(carrier,closer,mode,len-class,others,reverse)", fmt.Sprintf("%s|%s|sibling-aborts-%s|%s|1|idle", carrier, closer, aborter, lenName(c.Len)))
	f := wf
	if f == nil {
		f = rf
	}
	if out == e2e.Stalled && f == nil {
		f = &e2e.Failure{Kind: dir + ":stalled-before-end-of-stream"}
	}
	if out == e2e.Inconclusive {
		rec.Inconclusive("busy at watchdog", c)
		return
	}
	if f != nil {
		rec.Violation(fmt.Sprintf("%s:closer=%s:sibling-aborts:%s", carrier, closer, f.Kind), c, f.Info)
		return
	}
	rec.Stat("closes_verified", 1)
	rec.Stat("closes_verified_while_a_sibling_aborted", 1)
	rec.Stat("bytes_verified_before_eof", c.Len)
}

// runSiblingStalled: a sibling connection of the same session has a target that does not read, with 3 MiB (under the
// multiplexer's 4 MiB receive buffer, which all connections of a session share) written to it by its application. A write
// and close on another connection must still be delivered, then end-of-stream.
func runSiblingStalled(rec *vcommon.Rec, carrier, closer string) {
	c := &c17Case{Carrier: carrier, Closer: closer, Mode: "sibling-target-does-not-read", Len: 1000, Others: 1, Seed: rec.Seed()*10000 + 9600}
	rec.Mark(c)
	p, err := e2e.Start(e2e.Options{Carrier: carrier, Tag: "t"})
	if err != nil {
		rec.Violation(carrier+":setup-failed", c, err.Error())
		return
	}
	defer p.Close()
	sapp, stgt, o, err := p.Open("echo")
	if err != nil || o != e2e.Done {
		rec.Inconclusive("sibling-stalled: open failed", c)
		return
	}
	defer sapp.Close()
	defer stgt.Close()
	// the sibling's application writes 3 MiB; nobody reads them at the target. The write is finished (or blocked in
	// flow control for good) when it has not moved for a while: it runs on its own goroutine and is never waited for.
	var wrote int64
	go func() {
		buf := make([]byte, 32768)
		for atomic.LoadInt64(&wrote) < 3<<20 {
			n, err := sapp.Write(buf)
			atomic.AddInt64(&wrote, int64(n))
			e2e.Bump(n)
			if err != nil {
				return
			}
		}
	}()
	last, same := int64(-1), 0
	for i := 0; i < 600 && same < 10; i++ { // until the sibling's write stands still (all written, or blocked)
		time.Sleep(50 * time.Millisecond)
		if w := atomic.LoadInt64(&wrote); w == last {
			same++
		} else {
			last, same = w, 0
		}
	}
	rec.StatMax("sibling_stalled_bytes_written_into_the_unread_connection", atomic.LoadInt64(&wrote))
	app, tgt, o, err := p.Open("echo")
	if err != nil || o != e2e.Done {
		if o == e2e.Inconclusive {
			rec.Inconclusive("sibling-stalled: busy", c)
			return
		}
		rec.Case(fmt.Sprintf("sibling-stalled/%s/%s", carrier, closer), true)
		rec.Violation(fmt.Sprintf("%s:closer=%s:sibling-target-does-not-read:open-stalled", carrier, closer), c, map[string]interface{}{"sibling_bytes_written": atomic.LoadInt64(&wrote)})
		return
	}
	defer app.Close()
	defer tgt.Close()
	w, r, dir := app, tgt, "c2t"
	if closer == "target" {
		w, r, dir = tgt, app, "t2c"
	}
	st := &e2e.Stream{Key: uint64(c.Seed) + 1, Len: c.Len}
	var wf, rf *e2e.Failure
	wd := e2e.Go(func() {
		if _, err := e2e.WriteStream(w, st); err != nil {
			wf = &e2e.Failure{Kind: dir + ":write-error-before-close", Info: map[string]interface{}{"err": err.Error()}}
			return
		}
		w.Close()
	})
	rd := e2e.Go(func() {
		if _, rf = e2e.ReadStream(r, st, nil); rf != nil {
			rf.Kind = dir + ":" + rf.Kind
			return
		}
		rf = e2e.ExpectEOF(r, dir)
	})
	out := e2e.Wait(e2e.Go(func() { <-wd; <-rd }))
	rec.Case(fmt.Sprintf("sibling-stalled/%s/%s", carrier, closer), out != e2e.Inconclusive)
	rec.Seen("tuple(carrier,closer,mode,len-class,others,reverse)", fmt.Sprintf("%s|%s|sibling-target-does-not-read|%s|1|idle", carrier, closer, lenName(c.Len)))
	f := wf
	if f == nil {
		f = rf
	}
	if out == e2e.Stalled && f == nil {
		f = &e2e.Failure{Kind: dir + ":stalled-before-end-of-stream"}
	}
	if out == e2e.Inconclusive {
		rec.Inconclusive("busy at watchdog", c)
		return
	}
	if f != nil {
		info := map[string]interface{}{"detail": f.Info, "sibling_bytes_written": atomic.LoadInt64(&wrote)}
		rec.Violation(fmt.Sprintf("%s:closer=%s:sibling-target-does-not-read:%s", carrier, closer, f.Kind), c, info)
		return
	}
	rec.Stat("closes_verified", 1)
	rec.Stat("closes_verified_while_a_sibling_target_did_not_read", 1)
}

// runInstantClose: the application connects and closes at once without writing a byte (payload 0, application first),
// one connection after the other. The target must see each of them: a connection, no data, end-of-stream.
func runInstantClose(rec *vcommon.Rec, carrier string, total int) {
	c := &c17Case{Carrier: carrier, Closer: "app", Mode: fmt.Sprintf("connect-and-close-at-once:%d", total), Len: 0, Seed: rec.Seed()*10000 + 9800}
	rec.Mark(c)
	p, err := e2e.Start(e2e.Options{Carrier: carrier, Tag: "i"})
	if err != nil {
		rec.Violation(carrier+":setup-failed", c, err.Error())
		return
	}
	defer p.Close()
	ok := int64(0)
	for i := 0; i < total; i++ {
		app, err := p.Dial("echo")
		if err != nil {
			rec.Inconclusive("instant close: dial of the client's listener failed: "+err.Error(), c)
			return
		}
		app.Close()
		tgt, o := p.Targets["echo"].Next()
		var f *e2e.Failure
		switch o {
		case e2e.Inconclusive:
			rec.Inconclusive("instant close: busy", c)
			return
		case e2e.Stalled:
			f = &e2e.Failure{Kind: "c2t:target-never-saw-the-connection"}
		default:
			f = e2e.ExpectEOF(tgt, "c2t")
			tgt.Close()
		}
		if f != nil {
			rec.Case(fmt.Sprintf("instant/%s/%d", carrier, total), !f.Inconclusive)
			if f.Inconclusive {
				rec.Inconclusive("instant close: "+f.Kind, c)
				return
			}
			rec.Violation(fmt.Sprintf("%s:closer=app:connect-and-close-at-once:%s", carrier, f.Kind), c, map[string]interface{}{"connection_number": i, "verified_before": ok, "detail": f.Info})
			return
		}
		ok++
		e2e.Bump(1)
	}
	rec.Case(fmt.Sprintf("instant/%s/%d", carrier, total), true)
	rec.Seen("tuple(carrier,closer,mode,len-class,others,reverse)", fmt.Sprintf("%s|app|connect-and-close-at-once|%s|0|idle", carrier, lenName(0)))
	rec.Stat("closes_verified", ok)
	rec.Stat("instant_closes_verified:"+carrier, ok)
}

// runManyCloses: thousands of short logical connections on one session, 8 at a time: the closer writes 65537 bytes
// in 4 KiB writes and closes at once; the other end must read exactly that and then end-of-stream. The multiplexer's
// last data frame and its FIN travel back to back here, which is where an end-of-stream can overtake data.
func runManyCloses(rec *vcommon.Rec, carrier, closer string, total int) {
	c := &c17Case{Carrier: carrier, Closer: closer, Mode: fmt.Sprintf("many-closes:%d", total), Len: 65537, Seg: 4096, Seed: rec.Seed()*10000 + 9700}
	rec.Mark(c)
	// connections are opened concurrently: the application sends an 8-byte tag first and the target files the accepted
	// connection under it, so that both ends of one logical connection are known
	p, err := e2e.Start(e2e.Options{Carrier: carrier, Tag: "m", Channels: []e2e.ChanSpec{{Name: "echo", Tagged: true}}})
	if err != nil {
		rec.Violation(carrier+":setup-failed", c, err.Error())
		return
	}
	defer p.Close()
	var mu sync.Mutex
	var first *e2e.Failure
	firstAt := -1
	var ok int64
	sem := make(chan struct{}, 8)
	var wg sync.WaitGroup
	for i := 0; i < total; i++ {
		mu.Lock()
		stop := first != nil
		mu.Unlock()
		if stop {
			break
		}
		sem <- struct{}{}
		wg.Add(1)
		go func(i int) {
			defer wg.Done()
			defer func() { <-sem }()
			tag := uint64(c.Seed)<<20 + uint64(i)
			var tgt net.Conn
			o := e2e.Done
			app, err := p.Dial("echo")
			if err == nil {
				var hdr [8]byte
				binary.BigEndian.PutUint64(hdr[:], tag)
				if _, err = app.Write(hdr[:]); err == nil {
					tgt, o = p.Targets["echo"].NextTagged(tag)
				}
			}
			if err != nil || o != e2e.Done {
				if app != nil {
					app.Close()
				}
				mu.Lock()
				if first == nil {
					first = &e2e.Failure{Kind: "open-failed", Inconclusive: o == e2e.Inconclusive, Info: map[string]interface{}{"err": fmt.Sprint(err), "outcome": o.String()}}
					firstAt = i
				}
				mu.Unlock()
				return
			}
			defer app.Close()
			defer tgt.Close()
			w, r, dir := app, tgt, "c2t"
			if closer == "target" {
				w, r, dir = tgt, app, "t2c"
			}
			st := &e2e.Stream{Key: uint64(c.Seed)*100000 + uint64(i), Len: c.Len, Seg: func() int { return 4096 }}
			var f *e2e.Failure
			wd := e2e.Go(func() {
				if _, err := e2e.WriteStream(w, st); err != nil {
					f = &e2e.Failure{Kind: dir + ":write-error-before-close", Info: map[string]interface{}{"err": err.Error()}}
					return
				}
				w.Close()
			})
			var rf *e2e.Failure
			rd := e2e.Go(func() {
				if _, rf = e2e.ReadStream(r, st, nil); rf != nil {
					rf.Kind = dir + ":" + rf.Kind
					return
				}
				rf = e2e.ExpectEOF(r, dir)
			})
			switch e2e.Wait(e2e.Go(func() { <-wd; <-rd })) {
			case e2e.Stalled:
				if f == nil && rf == nil {
					f = &e2e.Failure{Kind: dir + ":stalled-before-end-of-stream"}
				}
			case e2e.Inconclusive:
				f = &e2e.Failure{Kind: "busy", Inconclusive: true}
			}
			if f == nil {
				f = rf
			}
			if f != nil {
				mu.Lock()
				if first == nil {
					first, firstAt = f, i
				}
				mu.Unlock()
				return
			}
			atomic.AddInt64(&ok, 1)
		}(i)
	}
	wg.Wait()
	rec.Case(fmt.Sprintf("many/%s/%s/%d", carrier, closer, total), true)
	rec.Seen("tuple(carrier,closer,mode,len-class,others,reverse)", fmt.Sprintf("%s|%s|many-closes|%s|7|idle", carrier, closer, lenName(c.Len)))
	rec.Stat("closes_verified", ok)
	rec.Stat("closes_verified_in_rapid_succession:"+carrier, ok)
	rec.Stat("bytes_verified_before_eof", ok*c.Len)
	if first != nil {
		if first.Inconclusive {
			rec.Inconclusive("many closes: "+first.Kind, c)
			return
		}
		info := map[string]interface{}{"connection_number": firstAt, "closes_verified_before": ok, "detail": first.Info}
		rec.Violation(fmt.Sprintf("%s:closer=%s:many-closes:%s", carrier, closer, first.Kind), c, info)
	}
}

// runAgedSession: the sequence numbers of the DNS carrier belong to the session, not to a logical connection.
// One logical connection writes enough to take the session's upstream packet counter past 65535 (about 12.6 MB
// at 193 bytes a query; 14 MiB are written) and closes; then, on the session that has wrapped around, a
// second connection writes and closes in each direction. Every byte must arrive, followed by end-of-stream.
func runAgedSession(rec *vcommon.Rec, carrier string, total int64) {
	c := &c17Case{Carrier: carrier, Closer: "app", Mode: fmt.Sprintf("aged-session:%d", total), Len: total, Seed: rec.Seed()*10000 + 9700}
	rec.Mark(c)
	p, err := e2e.Start(e2e.Options{Carrier: carrier, Tag: "g"})
	if err != nil {
		rec.Violation(carrier+":setup-failed", c, err.Error())
		return
	}
	defer p.Close()
	key := fmt.Sprintf("%s/aged-session/%d", carrier, total)
	one := func(what, closer string, n int64, k uint64) *e2e.Failure {
		app, tgt, o, err := p.Open("echo")
		if err != nil || o != e2e.Done {
			if o == e2e.Inconclusive {
				return &e2e.Failure{Kind: "busy at open", Inconclusive: true}
			}
			return &e2e.Failure{Kind: what + ":open-failed", Info: map[string]interface{}{"err": fmt.Sprint(err), "goroutines": e2e.Clip(e2e.Stacks(), 50000)}}
		}
		defer app.Close()
		defer tgt.Close()
		w, r, dir := app, tgt, "c2t"
		if closer == "target" {
			w, r, dir = tgt, app, "t2c"
		}
		st := &e2e.Stream{Key: k, Len: n, Seg: func() int { return 32768 }}
		var wf, rf *e2e.Failure
		wdone := e2e.Go(func() {
			if _, err := e2e.WriteStream(w, st); err != nil {
				wf = &e2e.Failure{Kind: what + ":" + dir + ":write-error-before-close", Info: map[string]interface{}{"err": err.Error()}}
				return
			}
			w.Close()
		})
		rdone := e2e.Go(func() {
			if _, rf = e2e.ReadStream(r, st, []uint64{st.Key}); rf != nil {
				rf.Kind = what + ":" + dir + ":" + rf.Kind
				return
			}
			if rf = e2e.ExpectEOF(r, dir); rf != nil {
				rf.Kind = what + ":" + rf.Kind
			}
		})
		both := e2e.Go(func() { <-wdone; <-rdone })
		// the window is longer than the multiplexer's keep-alive time-out (30 s): a session that has died
		// silently ends the streams by itself and the reader reports what it got
		win := e2e.StallWindow()
		if win < 50*time.Second {
			win = 50 * time.Second
		}
		switch e2e.WaitW(both, win) {
		case e2e.Stalled:
			if wf == nil && rf == nil {
				return &e2e.Failure{Kind: what + ":" + dir + ":stalled-before-end-of-stream", Info: map[string]interface{}{"goroutines": e2e.Clip(e2e.Stacks(), 60000)}}
			}
		case e2e.Inconclusive:
			return &e2e.Failure{Kind: "busy at watchdog", Inconclusive: true}
		}
		if wf != nil {
			return wf
		}
		if rf == nil {
			rec.Stat("closes_verified", 1)
			rec.Stat("bytes_verified_before_eof", n)
		}
		return rf
	}
	f := one("long-transfer", "app", total, uint64(c.Seed)*4+1)
	if f == nil {
		f = one("after-the-wrap", "app", 65537, uint64(c.Seed)*4+2)
	}
	if f == nil {
		f = one("after-the-wrap", "target", 65537, uint64(c.Seed)*4+3)
	}
	if f != nil && f.Inconclusive {
		rec.Inconclusive(f.Kind, c)
		return
	}
	rec.Case(key, true)
	rec.Seen("carrier", carrier)
	rec.Seen("aged session (bytes sent upstream before the last closes)", fmt.Sprintf("%s|%d", carrier, total))
	if f != nil {
		rec.Violation(fmt.Sprintf("%s:aged-session:%s", carrier, f.Kind), c, f.Info)
	}
}

func TestVerifC17(t *testing.T) {
	e2e.Quiet()
	rec := vcommon.Open()
	defer rec.Close()
	if rec.Replay != nil {
		var c c17Case
		if err := json.Unmarshal(rec.Replay, &c); err != nil {
			t.Fatal(err)
		}
		if c.Dump {
			os.Setenv("SOCKETACE_PIPE_DEBUG", "1")
		}
		switch {
		case strings.HasPrefix(c.Mode, "many-closes:"):
			n := 4000
			fmt.Sscanf(c.Mode[len("many-closes:"):], "%d", &n)
			runManyCloses(rec, c.Carrier, c.Closer, n)
			return
		case strings.HasPrefix(c.Mode, "aged-session:"):
			n := int64(14 << 20)
			fmt.Sscanf(c.Mode[len("aged-session:"):], "%d", &n)
			runAgedSession(rec, c.Carrier, n)
			return
		case c.Mode == "sibling-target-does-not-read":
			runSiblingStalled(rec, c.Carrier, c.Closer)
			return
		case strings.HasPrefix(c.Mode, "connect-and-close-at-once:"):
			n := 150
			fmt.Sscanf(c.Mode[len("connect-and-close-at-once:"):], "%d", &n)
			runInstantClose(rec, c.Carrier, n)
			return
		case strings.HasPrefix(c.Mode, "sibling-aborts:"):
			runSiblingAbort(rec, c.Carrier, c.Closer, c.Mode[len("sibling-aborts:"):])
			return
		case strings.HasPrefix(c.Mode, "close-after-"):
			n := 35
			fmt.Sscanf(c.Mode[len("close-after-"):], "%d", &n)
			runLate(rec, c.Carrier, c.Closer, time.Duration(n)*time.Second)
			return
		}
		p, err := e2e.Start(e2e.Options{Carrier: c.Carrier})
		if err != nil {
			rec.Violation(c.Carrier+":setup-failed", c, err.Error())
			return
		}
		defer p.Close()
		runCase(rec, p, &c)
		return
	}
	if os.Getenv("VERIF_C17_PART") == "aged" {
		// a child of its own, next to the other parts of the run (it takes the longest)
		runAgedSession(rec, "dns", 14<<20)
		return
	}
	carriers := []string{"tcp", "unix", "tcp+tls", "tcp+starttls", "ws", "wss", "ws+starttls", "stdio", "udp", "udp+starttls", "dns"}
	if rec.Thorough() {
		carriers = e2e.Carriers
	}
	if v := os.Getenv("VERIF_CARRIERS"); v != "" {
		carriers = strings.Split(v, ",")
	}
	if os.Getenv("VERIF_C17_NOLATE") == "" && os.Getenv("VERIF_CARRIERS") == "" {
		// late-close items come after the per-carrier items in the shard numbering
		late := []struct{ carrier, closer string }{{"tcp", "target"}, {"tcp", "app"}, {"ws", "target"}, {"udp", "target"}, {"tcp+starttls", "app"}}
		for i, l := range late {
			if rec.Mine(len(carriers) + i) {
				runLate(rec, l.carrier, l.closer, time.Duration(rec.Pick(35, 65))*time.Second)
			}
		}
	}
	if os.Getenv("VERIF_CARRIERS") == "" {
		// sibling-abort items come after the late-close items in the shard numbering
		sib := []struct{ carrier, closer, aborter string }{{"tcp", "target", "app"}, {"tcp", "app", "target"}, {"ws", "target", "app"}, {"udp", "app", "app"}, {"tcp+starttls", "target", "target"}, {"unix", "target", "app"}}
		for i, x := range sib {
			if rec.Mine(len(carriers) + 5 + i) {
				runSiblingAbort(rec, x.carrier, x.closer, x.aborter)
			}
		}
	}
	if os.Getenv("VERIF_CARRIERS") == "" {
		// many-closes items come last in the shard numbering
		many := []struct{ carrier, closer string }{{"tcp", "app"}, {"tcp", "target"}, {"ws", "app"}, {"unix", "target"}}
		for i, x := range many {
			if rec.Mine(len(carriers) + 11 + i) {
				runManyCloses(rec, x.carrier, x.closer, rec.Pick(4000, 20000))
			}
		}
		for i, cr := range []string{"tcp", "ws", "udp"} {
			if rec.Mine(len(carriers) + 15 + i) {
				runInstantClose(rec, cr, rec.Pick(150, 1000))
			}
		}
		for i, x := range []struct{ carrier, closer string }{{"tcp", "app"}, {"ws", "target"}, {"unix", "app"}} {
			if rec.Mine(len(carriers) + 18 + i) {
				runSiblingStalled(rec, x.carrier, x.closer)
			}
		}
	}
	for idx, carrier := range carriers {
		if !rec.Mine(idx) {
			continue
		}
		var p *e2e.Pair
		stalls := 0
		for _, c := range cases(rec, carrier) {
			if p == nil {
				var err error
				if p, err = e2e.Start(e2e.Options{Carrier: carrier}); err != nil {
					rec.Violation(carrier+":setup-failed", c, err.Error())
					break
				}
			}
			if runCase(rec, p, c) {
				stalls++
				p.Close()
				p = nil
				if stalls >= 3 {
					rec.Note("carrier abandoned after three stalls", carrier)
					break
				}
			}
		}
		if p != nil {
			p.Close()
		}
	}
}
