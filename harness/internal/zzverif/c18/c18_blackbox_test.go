// C18 black-box monitor: the real binary as a child process, configured through generated YAML files
// and command lines; the classifier of c18_probe_test.go looks at it from outside.
package c18

import (
	"bytes"
	"crypto/tls"
	"fmt"
	"io"
	"io/ioutil"
	"net"
	"os"
	"os/exec"
	"path/filepath"
	"regexp"
	"strings"
	"sync"
	"syscall"
	"time"
)

func tlsClientOver(c net.Conn) *tls.Conn {
	return tls.Client(c, &tls.Config{InsecureSkipVerify: true})
}

func bbWorthwhile(in input) bool { return in.Shape != "" || startable(in) || in.Raw != "" }

// ---- child processes -----------------------------------------------------------------------------

type child struct {
	cmd     *exec.Cmd
	errPath string
	stdin   *os.File
	stdout  *os.File
	done    chan struct{}
	mu      sync.Mutex
	outBuf  bytes.Buffer
	reading bool
}

func (e *env) spawn(tag string, n int, argv ...string) (*child, error) {
	c := &child{done: make(chan struct{})}
	c.errPath = filepath.Join(e.tmp, fmt.Sprintf("%s%d.stderr", tag, n))
	ef, err := os.Create(c.errPath)
	if err != nil {
		return nil, err
	}
	defer ef.Close()
	inR, inW, err := os.Pipe()
	if err != nil {
		return nil, err
	}
	outR, outW, err := os.Pipe()
	if err != nil {
		return nil, err
	}
	c.cmd = exec.Command(e.bin, argv...)
	c.cmd.Dir = e.tmp
	c.cmd.Stdin = inR
	c.cmd.Stdout = outW
	c.cmd.Stderr = ef
	c.cmd.Env = append(os.Environ(), "NO_COLOR=1")
	c.cmd.SysProcAttr = &syscall.SysProcAttr{Setpgid: true}
	if err := c.cmd.Start(); err != nil {
		inR.Close()
		inW.Close()
		outR.Close()
		outW.Close()
		return nil, err
	}
	inR.Close()
	outW.Close()
	c.stdin, c.stdout = inW, outR
	go func() {
		c.cmd.Wait()
		close(c.done)
	}()
	return c, nil
}

func (c *child) exited() bool {
	select {
	case <-c.done:
		return true
	default:
		return false
	}
}

// drainStdout collects stdout in the background (cases that do not talk over stdio themselves).
func (c *child) drainStdout() {
	c.reading = true
	go func() {
		buf := make([]byte, 4096)
		for {
			n, err := c.stdout.Read(buf)
			c.mu.Lock()
			c.outBuf.Write(buf[:n])
			c.mu.Unlock()
			if err != nil {
				return
			}
		}
	}()
}

func (c *child) stdoutSoFar() []byte {
	c.mu.Lock()
	defer c.mu.Unlock()
	return append([]byte(nil), c.outBuf.Bytes()...)
}

func (c *child) stderrText() string {
	b, _ := ioutil.ReadFile(c.errPath)
	if len(b) > 6000 {
		b = b[:6000]
	}
	return string(b)
}

// stop terminates the child's process group and waits for it. false: it would not die.
func (c *child) stop() bool {
	defer func() {
		c.stdin.Close()
		c.stdout.Close()
		os.Remove(c.errPath)
	}()
	if c.exited() {
		syscall.Kill(-c.cmd.Process.Pid, syscall.SIGKILL) // stragglers of the group, if any
		return true
	}
	syscall.Kill(-c.cmd.Process.Pid, syscall.SIGTERM)
	select {
	case <-c.done:
		syscall.Kill(-c.cmd.Process.Pid, syscall.SIGKILL)
		return true
	case <-time.After(5 * time.Second):
	}
	syscall.Kill(-c.cmd.Process.Pid, syscall.SIGKILL)
	select {
	case <-c.done:
		return true
	case <-time.After(10 * time.Second):
		return false
	}
}

func (c *child) exitCode() int {
	if c.cmd.ProcessState == nil {
		return -1
	}
	return c.cmd.ProcessState.ExitCode()
}

var panicRe = regexp.MustCompile(`(?m)^(panic: |fatal error: |goroutine \d+ \[running\])`)

// traceSite: "file.go:pkg.Func" of the innermost socketace frame of a Go crash trace.
func traceSite(trace string) string {
	lines := strings.Split(trace, "\n")
	start := false
	for i := 0; i+1 < len(lines); i++ {
		l := lines[i]
		if strings.HasPrefix(l, "goroutine ") {
			start = true
			continue
		}
		if !start || !strings.Contains(l, "bokysan/socketace") || strings.HasPrefix(l, "\t") {
			continue
		}
		fn := l
		if p := strings.LastIndex(fn, "/"); p >= 0 {
			fn = fn[p+1:]
		}
		if q := strings.LastIndex(fn, "("); q > 0 && strings.HasSuffix(strings.TrimSpace(fn), ")") {
			fn = fn[:q]
		}
		file := strings.TrimSpace(lines[i+1])
		if p := strings.LastIndex(file, "/"); p >= 0 {
			file = file[p+1:]
		}
		if p := strings.Index(file, ":"); p >= 0 {
			file = file[:p]
		}
		return file + ":" + fn
	}
	return "unknown"
}

type bbObs struct {
	Argv     []string    `json:"argv"`
	Config   string      `json:"config,omitempty"`
	Natural  *ref        `json:"natural_reading"`
	Exit     interface{} `json:"exit_code,omitempty"`
	Stderr   string      `json:"stderr,omitempty"`
	Sockets  []string    `json:"sockets_of_child,omitempty"`
	Expected string      `json:"expected_at,omitempty"`
	Observed *obs        `json:"observed,omitempty"`
	Flight   *flight     `json:"flight,omitempty"`
	Note     string      `json:"note,omitempty"`
}

// judgeExit: the process ended by itself. ok=false: a violation was recorded.
func (e *env) judgeExit(d caseDesc, form string, c *child, bo *bbObs, started ...bool) {
	in := d.In
	d.Form = form
	<-c.done
	bo.Exit = c.exitCode()
	bo.Stderr = c.stderrText()
	all := bo.Stderr + string(c.stdoutSoFar())
	if panicRe.MatchString(bo.Stderr) {
		if len(started) > 0 && started[0] {
			// the configuration had been accepted and the process was serving when it crashed
			e.viol(sigT(in, "panic@"+traceSite(bo.Stderr)), d, bo)
		} else {
			e.viol(fmt.Sprintf("%s:%s:%s:panic@%s", in.Pos, form, in.panicClass(), traceSite(bo.Stderr)), d, bo)
		}
		return
	}
	if len(started) > 0 && started[0] {
		e.rec.Seen("bb_outcomes", in.Pos+":"+form+":"+in.Class+":exited-after-start")
		if c.exitCode() == 0 || strings.TrimSpace(all) == "" {
			e.viol(sigOf(in, form, "exit-without-error"), d, bo)
		} else if in.Want == "accept" {
			e.viol(sigT(in, "never-connects"), d, bo)
		}
		return
	}
	e.rec.Seen("bb_outcomes", in.Pos+":"+form+":"+in.Class+":config-error")
	if c.exitCode() == 0 || strings.TrimSpace(all) == "" {
		e.viol(sigOf(in, form, "exit-without-error"), d, bo)
		return
	}
	if in.Want == "accept" {
		e.viol(sigOf(in, form, "rejected"), d, bo)
	}
}

func sockStrings(s []sockInfo) []string {
	var r []string
	for _, x := range s {
		r = append(r, x.String())
	}
	return r
}

func protoOf(network string) string {
	switch network {
	case "tcp", "udp":
		return network
	case "unix":
		return "unix-stream"
	case "unixpacket":
		return "unix-seqpacket"
	case "unixgram":
		return "unix-dgram"
	}
	return ""
}

func netOfProto(p string) string {
	switch p {
	case "unix-stream":
		return "unix"
	case "unix-seqpacket":
		return "unixpacket"
	case "unix-dgram":
		return "unixgram"
	}
	return p
}

// findEndpoint: the child's socket at the expected place, else any socket it serves on.
func findEndpoint(socks []sockInfo, network, where string) (hit *sockInfo, other *sockInfo) {
	for i := range socks {
		s := &socks[i]
		if s.Proto == protoOf(network) && sameEndpoint(network, s.Addr, where) {
			return s, nil
		}
	}
	for i := range socks {
		if socks[i].Proto == protoOf(network) {
			return nil, &socks[i]
		}
	}
	if len(socks) > 0 {
		return nil, &socks[0]
	}
	return nil, nil
}

func (e *env) bbCase(d caseDesc) {
	switch d.In.Pos {
	case posServer:
		e.bbServer(d, "yaml")
		if d.In.Class == "documented" || d.In.Class == "unix-abs-path" {
			e.bbServer(d, "cli")
		}
	case posChannel:
		if d.In.Raw != "" {
			e.bbServer(d, "cli")
		} else {
			e.bbServer(d, "yaml")
		}
	case posUpstream:
		e.bbUpstream(d, "cli")
		if d.In.Class == "documented" && strings.HasPrefix(d.In.Addr, "tcp") {
			e.bbUpstream(d, "yaml")
		}
	case posListener:
		e.bbListener(d, "cli")
		if d.In.Class == "documented" && strings.HasPrefix(d.In.Addr, "tcp") && d.In.Fwd == "" {
			e.bbListener(d, "yaml")
		}
	}
}

// bbServer runs `socketace server` with the input as a server address (or as a channel address next
// to a plain tcp server) and looks at what the process does.
func (e *env) bbServer(d caseDesc, form string) {
	in := d.In
	key := "bb|" + form + "|" + in.key()
	d.Form = form
	for attempt := 0; attempt < 4; attempt++ {
		p, aux := freePort(), freePort()
		var a string
		uniq := d.N*100 + attempt*10 + len(form) // socket files of earlier attempts / forms stay behind
		if in.Raw != "" {
			a = resolve(in.Raw, p, 0, e.tmp, uniq)
		} else {
			a = resolve(in.Addr, p, 0, e.tmp, uniq)
		}
		nat := naturalRef(in.Pos, a)
		if in.Raw != "" {
			nat = rawRef(in, a)
		}
		bo := &bbObs{Natural: nat}
		var argv []string
		var servers, channels interface{}
		if in.Pos == posServer {
			servers = e.buildList(in, a)
			channels = []interface{}{map[string]interface{}{"name": "ch", "address": "tcp://127.0.0.1:1"}}
		} else {
			servers = []interface{}{map[string]interface{}{"address": fmt.Sprintf("tcp://127.0.0.1:%d", aux)}}
			if in.Raw == "" {
				channels = e.buildList(in, a)
			}
		}
		if form == "yaml" {
			doc := yamlDoc("server", "servers", servers, map[string]interface{}{"channels": channels})
			file := filepath.Join(e.tmp, fmt.Sprintf("bb%d.yaml", d.N))
			ioutil.WriteFile(file, []byte(doc), 0600)
			defer os.Remove(file)
			bo.Config = doc
			argv = []string{"server", "-c", file}
		} else {
			argv = []string{"server", "--server", jsonOf(servers)}
			if in.Pos == posChannel {
				argv = append(argv, "--channel", a)
			}
		}
		bo.Argv = argv
		c, err := e.spawn("srv", d.N, argv...)
		if err != nil {
			e.rec.Inconclusive("spawn: "+err.Error(), d)
			return
		}
		stdio := in.Pos == posServer && nat != nil && nat.Kind == "stdio" && in.Want != "reject"
		if !stdio {
			c.drainStdout()
		}
		retry := false
		func() {
			defer func() {
				if !c.stop() {
					e.rec.Inconclusive("child did not exit after SIGTERM+SIGKILL", d)
				}
			}()
			if stdio {
				o := probeStdio(c.stdin, c.stdout, nat.TLS)
				if o.Kind == "" && !c.exited() {
					// give the process the chance to end by itself (EOF on its stdin) before judging
					c.stdin.Close()
					select {
					case <-c.done:
					case <-time.After(2 * time.Second):
					}
				}
				e.rec.Case(key, true)
				if c.exited() {
					e.judgeExit(d, form, c, bo)
					return
				}
				bo.Observed = &o
				e.rec.Seen("bb_outcomes", in.Pos+":"+form+":"+in.Class+":started")
				e.rec.Seen("observed_transports_bb", in.Pos+":"+o.String())
				e.rec.Stat("bb_probed_endpoints", 1)
				e.judgeTransport(d, form, nat, a, o, &startObs{Input: a, Natural: nat, Observed: &o, Note: strings.Join(argv, " ")}, false)
				return
			}
			// wait for the process to do something: exit, or own a socket, or speak on stdout
			var socks []sockInfo
			poked := false
			t0 := time.Now()
			for {
				if c.exited() {
					if isAddrInUse(c.stderrText()) && attempt < 3 {
						retry = true
						return
					}
					e.rec.Case(key, true)
					e.judgeExit(d, form, c, bo)
					return
				}
				socks = boundSockets(c.cmd.Process.Pid)
				if in.Pos == posChannel {
					// the plain tcp server next to the channel is up: the configuration was accepted
					if h, _ := findEndpoint(socks, "tcp", fmt.Sprintf("127.0.0.1:%d", aux)); h != nil {
						e.rec.Case(key, true)
						e.rec.Seen("bb_outcomes", in.Pos+":"+form+":"+in.Class+":config-accepted")
						if structural[in.Class] {
							bo.Sockets = sockStrings(socks)
							e.viol(sigOf(in, form, "accepted-without-address"), d, bo)
						}
						return
					}
				} else if len(socks) > 0 {
					break
				}
				if bytes.Contains(c.stdoutSoFar(), []byte("HTTP/1.1 200")) {
					o := obs{Kind: "stdio", Net: "stdio", Detail: "answered the announce on stdout"}
					bo.Observed = &o
					e.rec.Case(key, true)
					e.judgeTransport(d, form, nat, a, o, &startObs{Input: a, Natural: nat, Observed: &o}, false)
					return
				}
				if !poked && time.Since(t0) > 1500*time.Millisecond {
					poked = true
					c.stdin.Write([]byte(announce)) // an unexpected stdio server would answer
				}
				if time.Since(t0) > watchdog {
					e.rec.Inconclusive("watchdog: server process neither exited nor opened a socket", d)
					return
				}
				time.Sleep(20 * time.Millisecond)
			}
			// it serves
			e.rec.Case(key, true)
			e.rec.Seen("bb_outcomes", in.Pos+":"+form+":"+in.Class+":started")
			bo.Sockets = sockStrings(socks)
			network, where := endpointOf(nat, a, e.tmp)
			bo.Expected = network + " " + where
			hit, other := findEndpoint(socks, network, where)
			wellFormed := in.Want == "accept"
			target := hit
			lenient := false
			if hit == nil {
				target = other
				if wellFormed && where != "" {
					e.viol(sigT(in, "listens-elsewhere"), d, bo)
				}
				if nat != nil {
					nn := strings.SplitN(nat.Net, "|", 2)[0]
					for _, nm := range namedEndpoints(a, nat, e.tmp) {
						if h, _ := findEndpoint(socks, nn, nm); h != nil {
							target, lenient = h, true
						}
					}
				}
			}
			if structural[in.Class] {
				e.viol(sigOf(in, form, "accepted-without-address"), d, bo)
				return
			}
			if target == nil {
				e.rec.Inconclusive("server process owns no usable socket", d)
				return
			}
			o := e.classifyEndpoint(netOfProto(target.Proto), target.Addr, nat)
			if o.Kind == "" {
				// a socket that was only open while the process was on its way out (bind first, fail later)?
				select {
				case <-c.done:
					e.judgeExit(d, form, c, bo)
					return
				case <-time.After(2 * time.Second):
				}
			}
			bo.Observed = &o
			e.rec.Seen("observed_transports_bb", in.Pos+":"+o.String())
			e.rec.Stat("bb_probed_endpoints", 1)
			so := &startObs{Input: a, Natural: nat, Observed: &o, Bound: target.String(), Expected: bo.Expected, Note: "argv: " + strings.Join(argv, " ") + "\nconfig:\n" + bo.Config + "\nsockets: " + strings.Join(bo.Sockets, "; ")}
			e.judgeTransport(d, form, nat, a, o, so, lenient)
		}()
		if !retry {
			return
		}
	}
	e.rec.Inconclusive("no free port after 4 attempts", d)
}

// waitListening polls until pid listens on tcp 127.0.0.1:port. "exit" / "up" / "watchdog".
func waitListening(c *child, port int) string {
	t0 := time.Now()
	for {
		if c.exited() {
			return "exit"
		}
		if h, _ := findEndpoint(boundSockets(c.cmd.Process.Pid), "tcp", fmt.Sprintf("127.0.0.1:%d", port)); h != nil {
			return "up"
		}
		if time.Since(t0) > watchdog {
			return "watchdog"
		}
		time.Sleep(20 * time.Millisecond)
	}
}

// childDied tells whether the client process is gone (true) or merely closed a connection (false),
// after its end of a local connection was seen closing. A live client keeps its listener open.
func childDied(c *child, lport int) (dead bool, known bool) {
	select {
	case <-c.done:
		return true, true
	case <-time.After(300 * time.Millisecond):
	}
	if k, err := net.DialTimeout("tcp", fmt.Sprintf("127.0.0.1:%d", lport), ioWait); err == nil {
		k.Close()
		return false, true
	}
	select {
	case <-c.done:
		return true, true
	case <-time.After(watchdog):
		return false, false
	}
}

// watchStdio reports what a client writes first on its stdout (nothing if it never writes).
func watchStdio(c *child, crt *certFiles, out chan flight) {
	buf := make([]byte, 4096)
	n, _ := c.stdout.Read(buf) // returns at the first bytes, or at EOF when the child is gone
	if n == 0 {
		return
	}
	first := append([]byte(nil), buf[:n]...)
	pc := &pipeConn{r: c.stdout, w: c.stdin}
	r := &recorder{C: out}
	r.handleStream(&prefixConn{Conn: pc, r: io.MultiReader(bytes.NewReader(first), pc)}, "stdio", crt, false)
}

// bbUpstream: what does `--upstream <url>` make the client emit first?
func (e *env) bbUpstream(d caseDesc, form string) {
	in := d.In
	key := "bb|" + form + "|" + in.key()
	d.Form = form
	nat0 := naturalRef(in.Pos, resolve(in.Addr, 1, 2, e.tmp, d.N))
	for attempt := 0; attempt < 4; attempt++ {
		rs, a, err := e.recorderFor(nat0, in.Addr, d.N, false)
		if err != nil {
			e.rec.Inconclusive("recorder: "+err.Error(), d)
			return
		}
		nat := naturalRef(in.Pos, a)
		if in.Class == "bare-scheme" {
			nat = lookup(in.Pos, strings.ToLower(strings.TrimSpace(a)))
		}
		lport := freePort()
		listen := fmt.Sprintf("ch~tcp://127.0.0.1:%d", lport)
		bo := &bbObs{Natural: nat}
		var argv []string
		if form == "yaml" {
			doc := yamlDoc("client", "upstream", []interface{}{a}, map[string]interface{}{"insecure": true})
			file := filepath.Join(e.tmp, fmt.Sprintf("bb%d.yaml", d.N))
			ioutil.WriteFile(file, []byte(doc), 0600)
			defer os.Remove(file)
			bo.Config = doc
			argv = []string{"client", "-k", "-c", file, "--listen", listen} // only the key under test comes from the file
		} else {
			argv = []string{"client", "-k", "--upstream", a, "--listen", listen}
		}
		bo.Argv = argv
		c, err := e.spawn("cli", d.N, argv...)
		if err != nil {
			rs.Close()
			e.rec.Inconclusive("spawn: "+err.Error(), d)
			return
		}
		stdioFlight := make(chan flight, 1)
		go watchStdio(c, e.crt, stdioFlight)
		retry := false
		func() {
			defer rs.Close()
			defer func() {
				if !c.stop() {
					e.rec.Inconclusive("child did not exit after SIGTERM+SIGKILL", d)
				}
			}()
			switch waitListening(c, lport) {
			case "exit":
				if isAddrInUse(c.stderrText()) && attempt < 3 {
					retry = true
					return
				}
				e.rec.Case(key, true)
				e.judgeExit(d, form, c, bo)
				return
			case "watchdog":
				e.rec.Inconclusive("watchdog: client neither exited nor listened", d)
				return
			}
			// trigger the upstream connection
			lc, err := net.DialTimeout("tcp", fmt.Sprintf("127.0.0.1:%d", lport), ioWait)
			if err != nil {
				e.rec.Inconclusive("local listener not connectable: "+err.Error(), d)
				return
			}
			defer lc.Close()
			lc.Write([]byte("ping"))
			gaveUp := make(chan struct{})
			go func() {
				buf := make([]byte, 256)
				for {
					if _, err := lc.Read(buf); err != nil {
						close(gaveUp)
						return
					}
				}
			}()
			var fl *flight
			died := false
			pending := func() {
				select {
				case f := <-rs.rec.C:
					fl = &f
				case f := <-stdioFlight:
					fl = &f
				default:
				}
			}
			select {
			case f := <-rs.rec.C:
				fl = &f
			case f := <-stdioFlight:
				fl = &f
			case <-gaveUp:
				// the local connection was closed: a flight, if there was one, is already published
				pending()
				if fl == nil {
					var known bool
					if died, known = childDied(c, lport); !known {
						e.rec.Inconclusive("watchdog: cannot tell whether the client died or gave up", d)
						return
					}
				}
			case <-c.done:
				pending()
				died = fl == nil
			case <-time.After(watchdog):
				e.rec.Inconclusive("watchdog: client neither emitted anything nor gave up", d)
				return
			}
			e.rec.Case(key, true)
			bo.Flight = fl
			if died {
				e.judgeExit(d, form, c, bo, true)
				return
			}
			if fl == nil {
				e.rec.Seen("bb_outcomes", in.Pos+":"+form+":"+in.Class+":gave-up-at-connect")
				if in.Want == "accept" {
					bo.Stderr = c.stderrText()
					e.viol(sigT(in, "never-connects"), d, bo)
				}
				return
			}
			o := fl.asObs()
			if nat != nil && nat.Kind == "stdio" && fl.Net == "stdio" && o.Kind == "socket" {
				o.Kind = "stdio"
			}
			bo.Observed = &o
			e.rec.Seen("bb_outcomes", in.Pos+":"+form+":"+in.Class+":emitted")
			e.rec.Seen("observed_transports_bb", in.Pos+":"+o.String())
			e.rec.Stat("bb_probed_endpoints", 1)
			good := e.judgeTransportPhase(d, form, nat, a, o, &startObs{Input: a, Natural: nat, Observed: &o, Flight: fl, Note: strings.Join(argv, " ")}, true, "")
			// The client lives on after a failed upstream session and opens the carrier again for the next local
			// connection, on the same upstream object: every use has to select the transport the address names.
			// (Stream carriers only: one accepted connection at the recorder = one attempt of the client.)
			if !good || nat == nil || (nat.Kind != "socket" && nat.Kind != "ws") || fl.Net == "stdio" {
				return
			}
			for use := 2; use <= 1+e.rec.Pick(1, 2); use++ {
				select {
				case <-gaveUp: // the refused session made the client drop the local connection
				case <-c.done:
					e.judgeExit(d, form, c, bo, true)
					return
				case <-time.After(watchdog):
					e.rec.Inconclusive("watchdog: client kept the local connection after its upstream session was refused", d)
					return
				}
				for drained := false; !drained; {
					select {
					case <-rs.rec.C:
					default:
						drained = true
					}
				}
				lc2, err := net.DialTimeout("tcp", fmt.Sprintf("127.0.0.1:%d", lport), ioWait)
				if err != nil {
					if dead, known := childDied(c, lport); known && dead {
						e.judgeExit(d, form, c, bo, true)
					} else {
						e.rec.Inconclusive("local listener not connectable a second time: "+err.Error(), d)
					}
					return
				}
				defer lc2.Close()
				lc2.Write([]byte("ping"))
				gaveUp = make(chan struct{})
				go func(lc net.Conn, ch chan struct{}) {
					buf := make([]byte, 256)
					for {
						if _, err := lc.Read(buf); err != nil {
							close(ch)
							return
						}
					}
				}(lc2, gaveUp)
				var fl2 *flight
				died2 := false
				select {
				case f := <-rs.rec.C:
					fl2 = &f
				case <-gaveUp:
					select {
					case f := <-rs.rec.C:
						fl2 = &f
					default:
					}
					if fl2 == nil {
						var known bool
						if died2, known = childDied(c, lport); !known {
							e.rec.Inconclusive("watchdog: cannot tell whether the client died or gave up", d)
							return
						}
					}
				case <-c.done:
					select {
					case f := <-rs.rec.C:
						fl2 = &f
					default:
					}
					died2 = fl2 == nil
				case <-time.After(watchdog):
					e.rec.Inconclusive("watchdog: client neither emitted anything nor gave up on its second local connection", d)
					return
				}
				e.rec.Case("bb-reuse|"+form+"|"+in.key(), true)
				e.rec.Stat("reuse_observations:bb-upstream", 1)
				bo2 := *bo
				bo2.Flight, bo2.Observed = fl2, nil
				bo2.Note = fmt.Sprintf("local connection #%d through the same client process; at the first one the upstream was observed as %s", use, o.String())
				if died2 {
					e.judgeExit(d, form, c, &bo2, true)
					return
				}
				if fl2 == nil {
					e.rec.Seen("bb_outcomes", in.Pos+":"+form+":"+in.Class+":"+phaseReuse+"gave-up-at-connect")
					if in.Want == "accept" {
						bo2.Stderr = c.stderrText()
						e.viol(sigT(in, phaseReuse+"never-connects"), d, &bo2)
					}
					return
				}
				o2 := fl2.asObs()
				bo2.Observed = &o2
				e.rec.Seen("observed_transports_bb", in.Pos+":"+phaseReuse+o2.String())
				if !e.judgeTransportPhase(d, form, nat, a, o2, &startObs{Input: a, Natural: nat, Observed: &o2, FirstUse: &o, Use: use, Flight: fl2, Note: strings.Join(argv, " ")}, true, phaseReuse) {
					return
				}
			}
		}()
		if !retry {
			return
		}
	}
	e.rec.Inconclusive("no free port after 4 attempts", d)
}

// bbListener: where does `--listen name~url[~forward]` listen, and does a connection made there
// surface at the upstream (or the forward target)?
func (e *env) bbListener(d caseDesc, form string) {
	in := d.In
	key := "bb|" + form + "|" + in.key()
	d.Form = form
	up, ul, err := newStreamRecorder("tcp", "127.0.0.1:0", e.crt)
	if err != nil {
		e.rec.Inconclusive("recorder: "+err.Error(), d)
		return
	}
	defer up.Close()
	fN := d.N*100 + len(form)
	ft, err := e.forwardTarget(in, fN)
	if err != nil {
		e.rec.Inconclusive("recorder: "+err.Error(), d)
		return
	}
	defer ft.Close()
	fport := ft.Port()
	for attempt := 0; attempt < 4; attempt++ {
		p := freePort()
		uniq := d.N*100 + attempt*10 + len(form)
		a := resolve(in.Addr, p, fport, e.tmp, uniq)
		fwd := resolve(in.Fwd, p, fport, e.tmp, fN)
		var nat *ref
		var cli string
		if in.Raw != "" {
			cli = resolve(in.Raw, p, fport, e.tmp, uniq)
			nat = rawRef(in, cli)
			a = cli
			if pp := strings.Split(cli, "~"); len(pp) >= 2 {
				a = pp[1]
			}
		} else {
			cli = cliString(in, a, fwd)
			nat = naturalRef(in.Pos, a)
		}
		bo := &bbObs{Natural: nat}
		upURL := "tcp://" + ul.Addr().String()
		var argv []string
		if form == "yaml" {
			doc := yamlDoc("client", "listen", []interface{}{cli}, map[string]interface{}{"insecure": true})
			file := filepath.Join(e.tmp, fmt.Sprintf("bb%d.yaml", d.N))
			ioutil.WriteFile(file, []byte(doc), 0600)
			defer os.Remove(file)
			bo.Config = doc
			argv = []string{"client", "-k", "-c", file, "--upstream", upURL} // only the key under test comes from the file
		} else {
			argv = []string{"client", "-k", "--upstream", upURL, "--listen", cli}
		}
		bo.Argv = argv
		c, err := e.spawn("lst", d.N, argv...)
		if err != nil {
			e.rec.Inconclusive("spawn: "+err.Error(), d)
			return
		}
		c.drainStdout()
		retry := false
		func() {
			defer func() {
				if !c.stop() {
					e.rec.Inconclusive("child did not exit after SIGTERM+SIGKILL", d)
				}
			}()
			var socks []sockInfo
			var early *flight
			t0 := time.Now()
		wait:
			for {
				if c.exited() {
					if isAddrInUse(c.stderrText()) && attempt < 3 {
						retry = true
						return
					}
					e.rec.Case(key, true)
					e.judgeExit(d, form, c, bo)
					return
				}
				socks = boundSockets(c.cmd.Process.Pid)
				if len(socks) > 0 {
					break
				}
				select {
				case f := <-up.C: // a stdio listener dials the upstream by itself
					early = &f
					break wait
				default:
				}
				if time.Since(t0) > watchdog {
					e.rec.Inconclusive("watchdog: client neither exited nor listened nor dialled", d)
					return
				}
				time.Sleep(20 * time.Millisecond)
			}
			e.rec.Case(key, true)
			e.rec.Seen("bb_outcomes", in.Pos+":"+form+":"+in.Class+":started")
			bo.Sockets = sockStrings(socks)
			if early != nil {
				o := obs{Kind: "stdio", Net: "stdio", Detail: "upstream saw " + early.Outer + " without any local connection"}
				bo.Observed, bo.Flight = &o, early
				e.rec.Seen("observed_transports_bb", in.Pos+":"+o.String())
				e.judgeTransport(d, form, nat, a, o, &startObs{Input: cli, Natural: nat, Observed: &o, Flight: early}, true)
				return
			}
			network, where := endpointOf(nat, a, e.tmp)
			bo.Expected = network + " " + where
			hit, other := findEndpoint(socks, network, where)
			wellFormed := in.Want == "accept"
			target := hit
			if hit == nil {
				target = other
				if wellFormed && where != "" {
					e.viol(sigT(in, "listens-elsewhere"), d, bo)
				}
			}
			if target == nil {
				e.rec.Inconclusive("client owns no usable socket", d)
				return
			}
			dn := netOfProto(target.Proto)
			lc, err := net.DialTimeout(dn, target.Addr, ioWait)
			if err != nil {
				e.rec.Inconclusive("listener socket not connectable: "+err.Error(), d)
				return
			}
			defer lc.Close()
			lc.Write([]byte("ping"))
			fc := ft.C()
			var o obs
			direct := false
			select {
			case f := <-up.C:
				bo.Flight = &f
				o = obs{Kind: "socket", Net: dn, Detail: "upstream saw " + f.Outer}
			case f := <-fc:
				bo.Flight = &f
				direct = true
				o = obs{Kind: "socket", Net: dn, Detail: "forward target saw " + f.Raw}
			case <-c.done:
				e.judgeExit(d, form, c, bo, true)
				return
			case <-time.After(watchdog):
				e.rec.Inconclusive("watchdog: accepted connection reached neither upstream nor forward target", d)
				return
			}
			bo.Observed = &o
			e.rec.Seen("observed_transports_bb", in.Pos+":"+o.String())
			e.rec.Stat("bb_probed_endpoints", 1)
			e.judgeTransport(d, form, nat, a, o, &startObs{Input: cli, Natural: nat, Observed: &o, Flight: bo.Flight, Bound: target.String(), Expected: bo.Expected, Note: strings.Join(argv, " ")},
				namedHit(dn, target.Addr, namedEndpoints(a, nat, e.tmp)))
			e.judgeForward(d, cli, fwd, ft, bo.Flight, direct, 1, bo)
		}()
		if !retry {
			return
		}
	}
	e.rec.Inconclusive("no free port after 4 attempts", d)
}

// bbChannelE2E: a real server with the channel under test, a real client, a connection through both;
// the harness owns the target the channel address names.
func (e *env) bbChannelE2E(d caseDesc) {
	in := d.In
	d.Form = "yaml"
	key := "bb-e2e|" + in.key()
	nat0 := naturalRef(in.Pos, resolve(in.Addr, 1, 2, e.tmp, d.N))
	if nat0 == nil || nat0.Kind != "socket" {
		return
	}
	for attempt := 0; attempt < 4; attempt++ {
		rs, a, err := e.recorderFor(nat0, in.Addr, d.N, true)
		if err != nil {
			e.rec.Inconclusive("recorder: "+err.Error(), d)
			return
		}
		sport, lport := freePort(), freePort()
		doc := yamlDoc("server", "servers", []interface{}{map[string]interface{}{"address": fmt.Sprintf("tcp://127.0.0.1:%d", sport)}},
			map[string]interface{}{"channels": []interface{}{map[string]interface{}{"name": "ch", "address": a}}})
		file := filepath.Join(e.tmp, fmt.Sprintf("e2e%d.yaml", d.N))
		ioutil.WriteFile(file, []byte(doc), 0600)
		bo := &bbObs{Natural: nat0, Config: doc}
		retry := false
		func() {
			defer rs.Close()
			defer os.Remove(file)
			srv, err := e.spawn("e2es", d.N, "server", "-c", file)
			if err != nil {
				e.rec.Inconclusive("spawn: "+err.Error(), d)
				return
			}
			srv.drainStdout()
			defer func() {
				if !srv.stop() {
					e.rec.Inconclusive("child did not exit after SIGTERM+SIGKILL", d)
				}
			}()
			switch waitListening(srv, sport) {
			case "exit":
				if isAddrInUse(srv.stderrText()) && attempt < 3 {
					retry = true
					return
				}
				e.rec.Case(key, true)
				e.judgeExit(d, "yaml", srv, bo)
				return
			case "watchdog":
				e.rec.Inconclusive("watchdog: server neither exited nor listened", d)
				return
			}
			cli, err := e.spawn("e2ec", d.N, "client", "--upstream", fmt.Sprintf("tcp://127.0.0.1:%d", sport), "--listen", fmt.Sprintf("ch~tcp://127.0.0.1:%d", lport))
			if err != nil {
				e.rec.Inconclusive("spawn: "+err.Error(), d)
				return
			}
			cli.drainStdout()
			defer func() {
				if !cli.stop() {
					e.rec.Inconclusive("child did not exit after SIGTERM+SIGKILL", d)
				}
			}()
			switch waitListening(cli, lport) {
			case "exit":
				if isAddrInUse(cli.stderrText()) && attempt < 3 {
					retry = true
					return
				}
				e.rec.Inconclusive("helper client exited: "+firstLine(cli.stderrText()), d)
				return
			case "watchdog":
				e.rec.Inconclusive("watchdog: helper client neither exited nor listened", d)
				return
			}
			lc, err := net.DialTimeout("tcp", fmt.Sprintf("127.0.0.1:%d", lport), ioWait)
			if err != nil {
				e.rec.Inconclusive("helper client not connectable: "+err.Error(), d)
				return
			}
			defer lc.Close()
			lc.Write([]byte("ping"))
			gaveUp := make(chan struct{})
			go func() {
				io.Copy(ioutil.Discard, lc)
				close(gaveUp)
			}()
			e.rec.Case(key, true)
			select {
			case f := <-rs.rec.C:
				o := obs{Kind: "socket", Net: f.Net, Detail: "target saw " + f.Raw}
				bo.Observed, bo.Flight = &o, &f
				e.rec.Seen("observed_transports_bb", "channel-e2e:"+o.String())
				e.rec.Stat("bb_probed_endpoints", 1)
				e.judgeTransport(d, "e2e", nat0, a, o, &startObs{Input: a, Natural: nat0, Observed: &o, Flight: &f, Note: doc}, true)
			case <-gaveUp:
				select {
				case f := <-rs.rec.C:
					o := obs{Kind: "socket", Net: f.Net, Detail: "target saw " + f.Raw}
					e.judgeTransport(d, "e2e", nat0, a, o, &startObs{Input: a, Natural: nat0, Observed: &o, Flight: &f, Note: doc}, true)
					return
				default:
				}
				select {
				case <-srv.done:
					e.judgeExit(d, "yaml", srv, bo, true)
					return
				case <-time.After(300 * time.Millisecond):
				}
				e.rec.Seen("bb_outcomes", "channel:e2e:"+in.Class+":connection-closed-without-reaching-target")
				if in.Want == "accept" {
					bo.Note = "the tunnelled connection was closed and nothing arrived at the channel's address"
					d.Form = "e2e"
					e.viol(sigT(in, "never-connects"), d, bo)
				}
			case <-time.After(watchdog):
				e.rec.Inconclusive("watchdog: tunnelled connection neither reached the target nor was closed", d)
			}
		}()
		if !retry {
			return
		}
	}
	e.rec.Inconclusive("no free port after 4 attempts", d)
}
