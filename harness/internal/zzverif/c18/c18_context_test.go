// C18 in-process monitor, "context" part: the configuration item under test is not alone in its
// file. The same item is parsed next to other, valid, material - another command's section in the
// same document (before / after it), another document of the same file ("---"), a valid sibling item
// in the same list - and every such file is parsed several times with a fresh parser each time.
//
// Oracle (nothing new is demanded): what the real parser says about the item when it stands alone
// (that outcome is judged against the reference table by parseCase) is what it has to say about it in
// every context and in every repetition: an address that is a configuration error alone is one in any
// file, an address that is accepted alone is accepted as the same thing.
package c18

import (
	"encoding/json"
	"fmt"
	"io/ioutil"
	"os"
	"path/filepath"
	"strings"

	scflags "github.com/bokysan/socketace/v2/internal/flags"
	"github.com/bokysan/socketace/v2/internal/server"
)

// yamlParts: the (command, key, value) a YAML form of parseForm writes for an input.
func (e *env) yamlParts(in input, form, a, fwd string) (command, key string, val interface{}, ok bool) {
	cli := cliString(in, a, fwd)
	switch in.Pos + ":" + form {
	case "server:yaml", "channel:yaml":
		if in.Raw != "" {
			return
		}
		key = map[string]string{posServer: "servers", posChannel: "channels"}[in.Pos]
		return "server", key, e.buildList(in, a), true
	case "upstream:yaml":
		return "client", "upstream", []interface{}{a}, true
	case "upstream:yaml-scalar":
		return "client", "upstream", a, true
	case "listener:yaml":
		return "client", "listen", []interface{}{cli}, true
	case "listener:yaml-maps":
		if in.Raw != "" {
			return
		}
		m := map[string]interface{}{"name": in.Name, "address": a}
		if in.Fwd != "" {
			m["forward"] = fwd
		}
		return "client", "listen", []interface{}{m}, true
	}
	return
}

// sibling: a plain, valid item of the same list (the sentinel of parseCase with another port / name).
func (e *env) sibling(pos, form string) interface{} {
	const sa = "tcp://127.0.0.1:2"
	switch pos {
	case posServer:
		m := e.extras(posServer)
		m["address"] = sa
		return m
	case posChannel:
		return map[string]interface{}{"name": "sib", "address": sa}
	case posUpstream:
		return sa
	case posListener:
		if form == "yaml-maps" {
			return map[string]interface{}{"name": "sib", "address": sa}
		}
		return "sib~" + sa
	}
	return nil
}

// otherSection: a valid section of the OTHER command (the one the input does not belong to), as YAML
// text. The candidates are tried alone, the first one the parser takes is used: a section that is
// refused by itself cannot serve as valid context. "" = none works.
func (e *env) otherSection(command string) string {
	k := "ctx-other:" + command
	if v, ok := e.ctxOther[k]; ok {
		return v
	}
	var cands []string
	if command == "server" { // the other one is the client
		lst := []interface{}{"sib~tcp://127.0.0.1:2"}
		cands = []string{
			yamlDoc("client", "listen", lst, map[string]interface{}{"insecure": true, "upstream": []interface{}{"tcp://127.0.0.1:3"}}),
			yamlDoc("client", "listen", lst, map[string]interface{}{"insecure": true}),
			yamlDoc("client", "insecure", true, nil),
		}
	} else {
		srv := e.extras(posServer)
		srv["address"] = "tcp://127.0.0.1:3"
		chn := []interface{}{map[string]interface{}{"name": "sib", "address": "tcp://127.0.0.1:2"}}
		cands = []string{
			yamlDoc("server", "servers", []interface{}{srv}, map[string]interface{}{"channels": chn}),
			yamlDoc("server", "channels", chn, nil),
		}
	}
	res := ""
	for _, c := range cands {
		file := filepath.Join(e.tmp, "ctx-other.yaml")
		if err := ioutil.WriteFile(file, []byte(c), 0600); err != nil {
			e.t.Fatal(err)
		}
		ps := newParser()
		r := guarded(func() ([]pitem, error) { return nil, scflags.NewYamlParser(ps.p).ParseFile(file) })
		os.Remove(file)
		if r.accepted() {
			res = c
			break
		}
	}
	if e.ctxOther == nil {
		e.ctxOther = map[string]string{}
	}
	e.ctxOther[k] = res
	e.rec.Seen("context_sections_used", fmt.Sprintf("next to a %s section: %q", command, strings.Replace(res, e.tmp, "{TMP}", -1)))
	return res
}

func canonItems(items []pitem) []string {
	var s []string
	for _, it := range items {
		s = append(s, strings.Join([]string{it.Type, it.Scheme, it.Host, it.Path, it.Opaque, it.Name, it.Fwd}, ","))
	}
	return s
}

type ctxVariant struct {
	Name   string // family-before | family-after
	Family string // section | document | item
	Before bool   // the valid material precedes the item under test
	K      int    // parses of the same text, each with a fresh parser
}

func (e *env) ctxVariants() []ctxVariant {
	ks, kd := e.rec.Pick(8, 24), e.rec.Pick(2, 4)
	return []ctxVariant{
		{"section-before", "section", true, ks}, {"section-after", "section", false, ks},
		{"document-before", "document", true, kd}, {"document-after", "document", false, kd},
		{"item-before", "item", true, kd}, {"item-after", "item", false, kd},
	}
}

type ctxObs struct {
	Text      string `json:"input_text"`
	Alone     pres   `json:"result_when_alone"`
	AloneText string `json:"input_text_when_alone,omitempty"`
	Parses    int    `json:"parses_of_this_text"`
	Agree     int    `json:"parses_agreeing_with_alone"`
	Accepted  int    `json:"parses_accepted"`
	Rejected  int    `json:"parses_rejected"`
	First     *pres  `json:"first_disagreeing_result,omitempty"`
	Expected  string `json:"expected,omitempty"`
}

// contextCases runs after the forms of parseCase: results holds what each form said about the item alone.
func (e *env) contextCases(d caseDesc, a, fwd string, results map[string]pres) {
	for _, form := range []string{"yaml", "yaml-scalar", "yaml-maps", "json"} {
		base, ok := results[form]
		if !ok || base.Panic != "" {
			continue // a crash of the item alone is reported as such; there is no outcome to compare with
		}
		for _, v := range e.ctxVariants() {
			e.contextCase(d, form, v, a, fwd, base)
		}
	}
}

func (e *env) contextCase(d caseDesc, form string, v ctxVariant, a, fwd string, base pres) {
	in := d.In
	var run func() pres
	var text, alone string
	sib := e.sibling(in.Pos, form)
	withSibling := func(val interface{}) (interface{}, bool) {
		l, ok := val.([]interface{})
		if !ok {
			return nil, false
		}
		if v.Before {
			return append([]interface{}{sib}, l...), true
		}
		return append(append([]interface{}{}, l...), sib), true
	}
	if form == "json" {
		if v.Family != "item" || (in.Pos != posServer && in.Pos != posChannel) || in.Raw != "" {
			return
		}
		val, ok := withSibling(e.buildList(in, a))
		if !ok {
			return
		}
		text = jsonOf(val)
		pos := in.Pos
		run = func() pres {
			return guarded(func() ([]pitem, error) {
				var r []pitem
				if pos == posServer {
					var ss server.Servers
					if err := ss.UnmarshalJSON([]byte(text)); err != nil {
						return nil, err
					}
					for _, s := range ss {
						r = append(r, describe(s))
					}
				} else {
					var cs server.Channels
					if err := cs.UnmarshalJSON([]byte(text)); err != nil {
						return nil, err
					}
					for _, s := range cs {
						r = append(r, describe(s))
					}
				}
				return r, nil
			})
		}
	} else {
		command, key, val, ok := e.yamlParts(in, form, a, fwd)
		if !ok {
			return
		}
		alone = yamlDoc(command, key, val, nil)
		switch v.Family {
		case "item":
			val2, ok := withSibling(val)
			if !ok {
				return
			}
			text = yamlDoc(command, key, val2, nil)
		case "section", "document":
			other := e.otherSection(command)
			if other == "" {
				return
			}
			sep := ""
			if v.Family == "document" {
				sep = "---\n"
			}
			if v.Before {
				text = other + sep + alone
			} else {
				text = alone + sep + other
			}
		}
		file := filepath.Join(e.tmp, fmt.Sprintf("c%d.yaml", d.N))
		if err := ioutil.WriteFile(file, []byte(text), 0600); err != nil {
			e.t.Fatal(err)
		}
		defer os.Remove(file)
		pos := in.Pos
		run = func() pres {
			ps := newParser()
			return guarded(func() ([]pitem, error) {
				if err := scflags.NewYamlParser(ps.p).ParseFile(file); err != nil {
					return nil, err
				}
				return ps.collect(pos), nil
			})
		}
	}

	// what the item alone said, transplanted into this context
	var want []string
	if base.accepted() {
		want = canonItems(base.Items)
		if v.Family == "item" {
			sit, ok := e.siblingAlone(in.Pos, form)
			if !ok {
				return // this form does not take the plain sibling either: nothing to transplant
			}
			sa := canonItems([]pitem{sit})
			if v.Before {
				want = append(sa, want...)
			} else {
				want = append(want, sa...)
			}
		}
	}
	fam := strings.SplitN(form, "-", 2)[0]
	o := ctxObs{Text: text, Alone: base, AloneText: alone, Parses: v.K}
	kind := ""
	for i := 0; i < v.K; i++ {
		r := run()
		k := ""
		switch {
		case r.Panic != "":
			k = "panic@" + r.Panic
		case r.accepted() && !base.accepted():
			k = "accepted-where-alone-rejected"
			o.Accepted++
		case !r.accepted() && base.accepted():
			k = "rejected-where-alone-accepted"
			o.Rejected++
		case r.accepted():
			o.Accepted++
			if strings.Join(canonItems(r.Items), ";") != strings.Join(want, ";") {
				k = "different-result"
			}
		default:
			o.Rejected++
		}
		if k == "" {
			o.Agree++
		} else if kind == "" {
			kind = k
			rr := r
			o.First = &rr
		}
	}
	e.rec.Case("parse|"+form+"+"+v.Name+"|"+in.key(), true)
	e.rec.Stat("context_parses:"+in.Pos+":"+fam+"+"+v.Family, int64(v.K))
	outcome := "rejected"
	if base.accepted() {
		outcome = "accepted"
	}
	e.rec.Seen("context_outcomes", fmt.Sprintf("%s:%s+%s:%s:alone-%s:%s", in.Pos, fam, v.Family, in.Class, outcome, map[bool]string{true: "same-in-context", false: "DIFFERENT-in-context"}[kind == ""]))
	if kind == "" {
		return
	}
	if want != nil {
		o.Expected = "accepted[" + strings.Join(want, ";") + "]"
	} else {
		o.Expected = "rejected"
	}
	dd := d
	dd.Form = form + "+" + v.Name
	if strings.HasPrefix(kind, "panic@") {
		e.viol(fmt.Sprintf("%s:%s+%s:%s:%s", in.Pos, fam, v.Family, in.panicClass(), kind), dd, o)
		return
	}
	e.viol(fmt.Sprintf("%s:%s+%s-vs-%s:%s:forms-disagree", in.Pos, fam, v.Family, fam, kind), dd, o)
}

// siblingAlone: what the real parser makes of the sibling item when it stands alone (computed once
// per position and form with the same parser the case uses).
func (e *env) siblingAlone(pos, form string) (pitem, bool) {
	k := pos + ":" + form
	if it, ok := e.ctxSib[k]; ok {
		return it, it.Type != ""
	}
	in := input{Pos: pos, Class: "documented", Addr: "tcp://127.0.0.1:2", Name: "sib", Want: "accept"}
	var it pitem
	r, _ := e.parseForm(in, form, "tcp://127.0.0.1:2", "", 0)
	if r.accepted() && len(r.Items) == 1 {
		it = r.Items[0]
	}
	if e.ctxSib == nil {
		e.ctxSib = map[string]pitem{}
	}
	e.ctxSib[k] = it
	b, _ := json.Marshal(it)
	e.rec.Seen("context_sibling_items", k+"="+string(b))
	return it, it.Type != ""
}
