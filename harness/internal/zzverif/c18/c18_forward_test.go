// C18, the two-address position: a listener spec is name~listen[~forward] and BOTH addresses are
// addresses in the sense of the property. The lists of c18_test.go vary the listen part and keep the
// forward part away (three hand-written exceptions); here
//   - every forward part (plain documented ones, schemes that ask for encryption, unknown schemes, case
//     variants, missing host/port, damaged URLs, PRNG mutants of the scheme) stands behind good listen parts, and
//   - every listen part of the existing lists (good and bad ones) stands once more in front of a forward part.
//
// The parse monitor treats them like every other input (all forms, contexts, forms agree, no panic). The start
// and black-box monitors put a recorder where the forward part points (TCP port or unix socket) and judge what
// arrives there by the reference below.
//
// Reference for the forward part (README L384-388: "foward-url is the optional direct address of the service. If
// specified, the client will try to connect to this service directly first and, failing that, start going through
// upstream services"; README L57 "forward to a local UNIX socket"): a direct, plain stream connection to the
// service on the socket family the scheme names. No list of schemes is given, so nothing is demanded of a forward
// part beyond: a plain tcp:// or unix:///abs/path forward whose service is up is tried first (that is the
// documented purpose); and IF a connection is made to the place a forward part names, it is the transport its
// scheme says - never plaintext for a scheme that asks for encryption, never anything for an unknown scheme.
// Not dialling (and going through the upstreams) is always acceptable for everything else.
package c18

import (
	"fmt"
	"net"
	"os"
	"path/filepath"
	"strings"

	"github.com/bokysan/socketace/v2/internal/zzverif/vcommon"
)

var forwardTable = []ref{
	{"tcp", "socket", "tcp", false, true, "README L384-388", "-"},
	{"unix", "socket", "unix", false, true, "README L57,L384-388", "-"},
	// dialled by the code (net.Dial takes the scheme as the network name), not documented
	{"unixpacket", "socket", "unixpacket", false, false, "-", "-"},
	{"tcp4", "socket", "tcp", false, false, "-", "-"},
	{"tcp6", "socket", "tcp", false, false, "-", "-"},
}

func forwardRef(fwd string) *ref {
	s := readScheme(fwd)
	for i := range forwardTable {
		if forwardTable[i].Scheme == s {
			return &forwardTable[i]
		}
	}
	return nil
}

// forwardBase: the socket family a forward template is about, whatever qualifiers / damage its scheme
// carries: where the harness has to put the recorder so that nothing the text could mean is missed.
func forwardBase(tmpl string) string {
	s := strings.ToLower(strings.TrimSpace(tmpl))
	switch {
	case strings.HasPrefix(s, "unixgram"):
		return "unixgram"
	case strings.HasPrefix(s, "unixpacket"):
		return "unixpacket"
	case strings.HasPrefix(s, "unix"):
		return "unix"
	case strings.HasPrefix(s, "udp"):
		return "udp"
	}
	return "tcp"
}

type fwdPart struct {
	Class string
	Tmpl  string
	Want  string
}

const fwdTCP = "127.0.0.1:{F}"
const fwdSock = "{ABS}/f{N}.sock"

// forwardParts: the forward parts that stand behind good listen parts.
func forwardParts() []fwdPart {
	var res []fwdPart
	add := func(class, want string, tmpls ...string) {
		for _, t := range tmpls {
			res = append(res, fwdPart{class, t, want})
		}
	}
	add("documented", "accept", "tcp://"+fwdTCP, "unix://"+fwdSock)
	add("forward-unix-rel-path", "any", "unix://f{N}.sock")
	add("forward-extension", "any", "unixpacket://"+fwdSock, "tcp4://"+fwdTCP, "tcp6://"+fwdTCP)
	add("forward-url-extras", "any", "tcp://user@"+fwdTCP, "tcp://"+fwdTCP+"/some/path?x=1#frag", "  tcp://"+fwdTCP+"  ")
	for _, s := range []string{"tcp+tls", "tcp+ssl", "tcp+tls+tls", "tcp+starttls", "tcp4+tls", "tcps", "tls", "ssl", "https", "wss",
		"TCP+TLS", "tcp+TLS", "Tcp+Tls", "tcp-tls", "tcp_tls", "tls+tcp", "tcp+tlsx", "tcp+tl+tls"} {
		add("forward-asks-encryption", "any", s+"://"+fwdTCP)
	}
	for _, s := range []string{"unix+tls", "unix+ssl", "unixpacket+tls", "UNIX+TLS"} {
		add("forward-asks-encryption", "any", s+"://"+fwdSock)
	}
	add("forward-asks-encryption", "any", "unix+tls://f{N}.sock", "stdin+tls://", "tcp+tls://", "tcp+tls:"+fwdTCP)
	for _, s := range []string{"foo", "http", "ws", "socks", "tcp+foo", "tcp+", "+tcp", "tcp+tcp", "tcp+udp", "tpc", "dns", "udp", "unixgram"} {
		h := fwdTCP
		if s == "unixgram" {
			h = fwdSock
		}
		add("forward-unknown-scheme", "any", s+"://"+h)
	}
	add("forward-unknown-scheme", "any", "stdin://", "stdin:")
	add("forward-case-variant", "any", "TCP://"+fwdTCP, "Tcp://"+fwdTCP, "UNIX://"+fwdSock, "Unix://f{N}.sock")
	add("forward-missing-hostport", "any", "tcp://", "tcp:", "tcp", "tcp:"+fwdTCP, "tcp:/"+fwdTCP, "tcp:///"+fwdTCP, "unix://", "unix:", "unix:f{N}.sock", "//"+fwdTCP)
	add("forward-bad-url", "reject", "tcp://[::1", fwdTCP, "tcp://"+fwdTCP+"x", "://"+fwdTCP, "tcp:// "+fwdTCP, "tcp://127.0.0.1:-1", "%74cp://"+fwdTCP)
	return res
}

// goodListen: listen parts that are documented and work (one per socket family).
var goodListen = []string{"tcp://127.0.0.1:{P}", "unix://s{N}.sock", "stdin://"}

// forwardInputs: the deterministic part. det = deterministicInputs(): its listener entries give the listen parts.
func forwardInputs(det []input) []input {
	var res []input
	seen := map[string]bool{}
	for _, in := range det {
		seen[in.key()] = true
	}
	push := func(in input) {
		if !seen[in.key()] {
			seen[in.key()] = true
			res = append(res, in)
		}
	}
	// every forward part behind the good listen parts
	for _, l := range goodListen {
		for _, f := range forwardParts() {
			push(input{Pos: posListener, Class: f.Class, Addr: l, Fwd: f.Tmpl, Name: "ch", Want: f.Want})
		}
	}
	// every listen part of the existing lists in front of a forward part: a good one, one that asks for
	// encryption, one that is no URL. The class (and with it every signature but that of a crash, see
	// panicClass) stays that of the listen part: what the listen part means does not depend on what follows it.
	behind := []fwdPart{{"", "tcp://" + fwdTCP, ""}, {"", "tcp+tls://" + fwdTCP, ""}, {"", "unix://" + fwdSock, ""}, {"", "tcp://[::1", "reject"}}
	for _, in := range det {
		if in.Pos != posListener || in.Raw != "" || in.Fwd != "" || in.Shape != "" || in.Class == "yaml-special" {
			continue
		}
		if in.Want == "accept" {
			continue // good listen parts: above
		}
		for _, f := range behind {
			x := in
			x.Fwd = f.Tmpl
			if f.Want == "reject" {
				x.Want = "reject"
			}
			push(x)
		}
	}
	return res
}

// forwardMutants: PRNG-made specs: a listen part (mostly good, sometimes one of the damaged ones) followed by a
// forward part whose scheme/separator is damaged by the same operators as the mutants of c18_test.go.
func forwardMutants(seed int64, n int) []input {
	rng := vcommon.NewRand(seed, "c18/forward-mutants")
	badListen := []struct{ class, addr, want string }{
		{"bad-url", "127.0.0.1:{P}", "reject"}, {"bad-url", "tcp://[::1", "reject"}, {"bad-url", "tcp://127.0.0.1:{P}x", "reject"},
		{"bad-url", "://127.0.0.1:{P}", "reject"}, {"bad-url", "tcp//127.0.0.1:{P}", "reject"}, {"bad-url", "%74cp://127.0.0.1:{P}", "reject"},
		{"whitespace", "tcp:// 127.0.0.1:{P}", "reject"}, {"unknown-scheme", "foo://127.0.0.1:{P}", "reject"}, {"unknown-scheme", "udp://127.0.0.1:{P}", "reject"},
		{"tls-suffix-misuse", "tcp+tls://127.0.0.1:{P}", "reject"}, {"empty", "", "reject"}, {"bad-url", "tcp://127.0.0.1:-1", "reject"},
	}
	bases := []struct{ scheme, host string }{
		{"tcp", fwdTCP}, {"tcp+tls", fwdTCP}, {"tcp+tls", fwdTCP}, {"unix", fwdSock}, {"unix+tls", fwdSock}, {"unix+tls", "f{N}.sock"}, {"unixpacket+tls", fwdSock}, {"tcp+ssl", fwdTCP},
	}
	var res []input
	seen := map[string]bool{}
	for len(res) < n {
		in := input{Pos: posListener, Name: "ch"}
		lclass := ""
		switch k := rng.Intn(20); {
		case k < 11:
			in.Addr = goodListen[0]
		case k < 13:
			in.Addr = goodListen[1]
		case k < 14:
			in.Addr = goodListen[2]
		default:
			b := badListen[rng.Intn(len(badListen))]
			in.Addr, lclass, in.Want = b.addr, b.class, b.want
		}
		b := bases[rng.Intn(len(bases))]
		pre := mutatePrefix(rng, []byte(b.scheme+"://"))
		f := string(pre) + b.host
		if strings.Contains(f, "<<") || strings.Contains(f, "~") {
			continue // "<<": the YAML merge key has its own class in c18_test.go; '~' is the separator of the spec itself
		}
		in.Fwd = f
		if lclass != "" {
			in.Class = lclass
		} else {
			in.Class, in.Want = classifyForward(f), "any"
			if in.Class == "documented" {
				in.Class = "forward-documented-by-mutation"
			}
		}
		in.Mutant = true
		if seen[in.key()] {
			continue
		}
		seen[in.key()] = true
		res = append(res, in)
	}
	return res
}

// classifyForward gives a PRNG-made forward part the class a hand-written one of the same form has.
func classifyForward(f string) string {
	t := strings.TrimSpace(f)
	nat := forwardRef(t)
	i := strings.Index(t, "://")
	switch {
	case asksEncryption(t):
		return "forward-asks-encryption"
	case nat == nil:
		return "forward-unknown-scheme"
	case i < 0 || i != strings.Index(t, ":") || strings.HasPrefix(t[i+3:], "/") && nat.Net == "tcp":
		return "forward-missing-hostport"
	case t[:i] != strings.ToLower(t[:i]):
		return "forward-case-variant"
	case nat.Doc:
		return "documented"
	}
	return "forward-extension"
}

// forwardStartable: worth starting - the listen part is a good one (what a bad listen part does is the business
// of the lists of c18_test.go) and whatever the forward part could possibly reach is a stream socket the harness
// can own (a datagram "connection" always succeeds and swallows the bytes: nothing would ever be observed).
func forwardStartable(in input) bool {
	if in.Pos != posListener || in.Fwd == "" || in.Raw != "" {
		return false
	}
	good := false
	for _, l := range goodListen {
		good = good || in.Addr == l
	}
	if !good {
		return false
	}
	switch forwardBase(in.Fwd) {
	case "udp", "unixgram":
		return false
	}
	if in.Addr != goodListen[0] {
		// the other socket families: the forward parts that can reach something, once each
		switch in.Fwd {
		case "tcp://" + fwdTCP, "unix://" + fwdSock, "tcp+tls://" + fwdTCP, "unix+tls://" + fwdSock, "TCP+TLS://" + fwdTCP, "foo://" + fwdTCP, "tcp4://" + fwdTCP, "tcp+ssl://" + fwdTCP:
			return true
		}
		return in.Mutant
	}
	return true
}

func forwardBBWorthwhile(in input) bool {
	if in.Pos != posListener || in.Fwd == "" || in.Raw != "" || in.Mutant {
		return false
	}
	if in.Addr == goodListen[0] {
		switch in.Fwd {
		case "unix://" + fwdSock, "tcp+tls://" + fwdTCP, "unix+tls://" + fwdSock, "TCP+TLS://" + fwdTCP, "tcp+ssl://" + fwdTCP, "foo://" + fwdTCP, "tcp4://" + fwdTCP, "tcp://[::1", "tcp:" + fwdTCP:
			return true
		}
		return false
	}
	// a listen part that is no good, with a good forward part behind it: the process has to end with a configuration error
	return in.Fwd == "tcp://"+fwdTCP && (in.Class == "bad-url" || in.Class == "empty" || in.Class == "unknown-scheme" || in.Class == "tls-suffix-misuse" || in.Class == "whitespace")
}

// ---- the recorder at the place the forward part names ------------------------------------------

type fwdTarget struct {
	rec   *recorder
	Net   string
	Where string
	port  int
}

func (t *fwdTarget) Close() {
	if t != nil && t.rec != nil {
		t.rec.Close()
	}
}

func (t *fwdTarget) C() <-chan flight {
	if t == nil || t.rec == nil {
		return nil
	}
	return t.rec.C
}

func (t *fwdTarget) Port() int {
	if t == nil {
		return 0
	}
	return t.port
}

// forwardTarget puts a plain stream recorder where the forward part of the input points. (nil, nil): the input has
// no forward part, or its text names no place a recorder could be put.
func (e *env) forwardTarget(in input, n int) (*fwdTarget, error) {
	tmpl := in.Fwd
	if tmpl == "" {
		if !strings.Contains(in.Raw, "{F}") {
			return nil, nil
		}
		tmpl = "tcp://" + fwdTCP
	}
	switch base := forwardBase(tmpl); base {
	case "unix", "unixpacket":
		text := strings.TrimSpace(resolve(tmpl, 0, 0, e.tmp, n))
		i := strings.Index(text, "://")
		if i < 0 {
			return nil, nil
		}
		p := text[i+3:]
		if j := strings.IndexAny(p, "?#"); j >= 0 {
			p = p[:j]
		}
		if p == "" {
			return nil, nil
		}
		if !strings.HasPrefix(p, "/") {
			p = filepath.Join(e.tmp, p)
		}
		p = filepath.Clean(p)
		if !strings.HasPrefix(p, e.tmp+"/") || len(p) > 100 {
			return nil, nil // never outside the scratch directory
		}
		if st, err := os.Stat(filepath.Dir(p)); err != nil || !st.IsDir() {
			return nil, nil // a damaged path that points into a directory that does not exist: nothing can be reached there
		}
		r, _, err := newStreamRecorder(base, p, nil)
		if err != nil {
			return nil, err
		}
		return &fwdTarget{rec: r, Net: base, Where: p}, nil
	case "tcp":
		if !strings.Contains(tmpl, "{F}") {
			return nil, nil
		}
		r, l, err := newStreamRecorder("tcp", "127.0.0.1:0", nil)
		if err != nil {
			return nil, err
		}
		return &fwdTarget{rec: r, Net: "tcp", Where: l.Addr().String(), port: l.Addr().(*net.TCPAddr).Port}, nil
	}
	return nil, nil
}

// fwdObs: what is reported with a violation of the forward reference.
type fwdObs struct {
	Spec     string      `json:"listener_spec"`
	Forward  string      `json:"forward_part"`
	Reading  *ref        `json:"natural_reading_of_the_forward_part"`
	AsksEnc  bool        `json:"forward_scheme_asks_for_encryption"`
	Target   string      `json:"recorder_at"`
	Direct   bool        `json:"connection_arrived_at_the_forward_target"`
	Flight   *flight     `json:"first_bytes_seen"`
	Use      int         `json:"use_of_the_same_listener,omitempty"`
	Observed interface{} `json:"case_observation,omitempty"`
}

// judgeForward: a connection made through a started listener surfaced either at the upstream (direct=false) or at
// the forward target (direct=true, f = what arrived there). true = agrees with the reference.
func (e *env) judgeForward(d caseDesc, spec, fwd string, t *fwdTarget, f *flight, direct bool, use int, caseObs interface{}) bool {
	in := d.In
	if in.Fwd == "" {
		return true // Raw specs: judged as before
	}
	phase := ""
	if use > 1 {
		phase = phaseReuse
	}
	fnat := forwardRef(fwd)
	o := &fwdObs{Spec: spec, Forward: fwd, Reading: fnat, AsksEnc: asksEncryption(fwd), Direct: direct, Flight: f, Use: use, Observed: caseObs}
	if t != nil {
		o.Target = t.Net + " " + t.Where
	}
	e.rec.Case(fmt.Sprintf("forward|%s|use%d|%s", d.Mon+":"+d.Form, use, in.key()), true)
	e.rec.Stat("forward_observations", 1)
	if !direct {
		e.rec.Seen("forward_outcomes", in.Class+":"+phase+"not-dialled(went to the upstreams)")
		if in.Class == "documented" && t != nil {
			e.viol(sigT(in, phase+"forward-not-tried-first"), d, o)
			return false
		}
		return true
	}
	enc := f != nil && f.Outer == "tls-clienthello"
	silent := f == nil || f.Outer == "eof"
	what := "plaintext"
	if enc {
		what = "tls"
	} else if silent {
		what = "connected-no-bytes"
	}
	e.rec.Seen("forward_outcomes", in.Class+":"+phase+"dialled:"+t.Net+":"+what)
	switch {
	case o.AsksEnc && silent:
		e.rec.Inconclusive("forward target was connected to but no byte arrived within the probe's wait: cannot tell plaintext from TLS", d)
		return false
	case o.AsksEnc && !enc:
		e.viol(sigT(in, phase+"forward-unencrypted"), d, o)
	case fnat == nil:
		e.viol(sigT(in, phase+"forward-accepted"), d, o)
	case enc && !fnat.TLS:
		e.viol(sigT(in, phase+"forward-unexpectedly-encrypted"), d, o)
	case t.Net != fnat.Net:
		e.viol(sigT(in, phase+"forward-wrong-transport"), d, o)
	default:
		return true
	}
	return false
}
