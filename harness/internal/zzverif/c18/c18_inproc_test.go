// C18 in-process monitor: the real parsers in their input forms ("parse"), then the real
// Startup / Connect / Start / OpenConnection against endpoints owned by the harness ("start").
package c18

import (
	"bytes"
	"encoding/json"
	"fmt"
	"io"
	"io/ioutil"
	"net"
	"os"
	"path/filepath"
	"reflect"
	"sort"
	"strings"
	"time"
	"unsafe"

	"github.com/bokysan/socketace/v2/internal/args"
	"github.com/bokysan/socketace/v2/internal/client/listener"
	"github.com/bokysan/socketace/v2/internal/client/upstream"
	clicmd "github.com/bokysan/socketace/v2/internal/commands/client"
	srvcmd "github.com/bokysan/socketace/v2/internal/commands/server"
	"github.com/bokysan/socketace/v2/internal/commands/version"
	scflags "github.com/bokysan/socketace/v2/internal/flags"
	"github.com/bokysan/socketace/v2/internal/server"
	"github.com/bokysan/socketace/v2/internal/streams"
	"github.com/bokysan/socketace/v2/internal/util/addr"
	"github.com/bokysan/socketace/v2/internal/util/cert"
	"github.com/bokysan/socketace/v2/internal/zzverif/vcommon"
	"github.com/jessevdk/go-flags"
)

// watchdog bounds how long the harness waits for the system under test to do *something* observable.
// Its expiry is always "inconclusive", never a verdict.
const watchdog = 25 * time.Second

// ---- configuration items in their forms ------------------------------------------------------

func (e *env) extras(pos string) map[string]interface{} {
	if pos == posChannel {
		return map[string]interface{}{"name": "ch"}
	}
	return map[string]interface{}{
		"certificateFile": e.crt.CertFile,
		"privateKeyFile":  e.crt.KeyFile,
		"endpoints":       []interface{}{map[string]interface{}{"endpoint": "/ws/all"}},
		"domain":          "example.org",
	}
}

// buildItem returns the value of the `servers:` / `channels:` key for a server/channel input.
func (e *env) buildList(in input, a string) interface{} {
	m := e.extras(in.Pos)
	if in.NoCert {
		delete(m, "certificateFile")
		delete(m, "privateKeyFile")
	}
	if in.Pos == posChannel && in.Name != "" {
		m["name"] = in.Name
	}
	var item interface{} = m
	switch in.Shape {
	case "":
		m["address"] = a
	case "no-address":
	case "address-typo":
		m["adress"] = a
	case "address-uppercase-key":
		m["Address"] = a
	case "kind-only":
		m["kind"] = readScheme(a)
	case "empty-map":
		item = map[string]interface{}{}
	case "addr-int":
		m["address"] = 8080
	case "addr-bool":
		m["address"] = true
	case "addr-null":
		m["address"] = nil
	case "addr-float":
		m["address"] = 1.5
	case "addr-list":
		m["address"] = []interface{}{a}
	case "addr-map":
		m["address"] = map[string]interface{}{"host": "127.0.0.1", "port": 8080}
	case "item-string":
		item = a
	case "item-int":
		item = 5
	case "item-null":
		item = nil
	case "item-list":
		item = []interface{}{a}
	case "list-scalar":
		return a
	case "list-map":
		m["address"] = a
		return m
	}
	return []interface{}{item}
}

func jsonOf(v interface{}) string {
	var b bytes.Buffer
	enc := json.NewEncoder(&b)
	enc.SetEscapeHTML(false)
	enc.Encode(v)
	return strings.TrimSpace(b.String())
}

func scalarYAML(v interface{}) (string, bool) {
	switch x := v.(type) {
	case nil:
		return "null", true
	case string:
		return jsonOf(x), true // a JSON string is a valid double-quoted YAML scalar
	case int, float64, bool:
		return fmt.Sprint(x), true
	case map[string]interface{}:
		if len(x) == 0 {
			return "{}", true
		}
	case []interface{}:
		if len(x) == 0 {
			return "[]", true
		}
	}
	return "", false
}

// emitYAML writes v in block style.
func emitYAML(b *strings.Builder, v interface{}, ind string) {
	switch x := v.(type) {
	case map[string]interface{}:
		keys := make([]string, 0, len(x))
		for k := range x {
			keys = append(keys, k)
		}
		sort.Strings(keys)
		for _, k := range keys {
			if s, ok := scalarYAML(x[k]); ok {
				fmt.Fprintf(b, "%s%s: %s\n", ind, k, s)
			} else {
				fmt.Fprintf(b, "%s%s:\n", ind, k)
				emitYAML(b, x[k], ind+"  ")
			}
		}
	case []interface{}:
		for _, it := range x {
			if s, ok := scalarYAML(it); ok {
				fmt.Fprintf(b, "%s- %s\n", ind, s)
				continue
			}
			var sub strings.Builder
			emitYAML(&sub, it, ind+"  ")
			t := sub.String()
			b.WriteString(ind + "- " + strings.TrimPrefix(t, ind+"  "))
		}
	default:
		s, _ := scalarYAML(v)
		fmt.Fprintf(b, "%s%s\n", ind, s)
	}
}

func yamlDoc(command, key string, val interface{}, more map[string]interface{}) string {
	m := map[string]interface{}{key: val}
	for k, v := range more {
		m[k] = v
	}
	var b strings.Builder
	emitYAML(&b, map[string]interface{}{command: m}, "")
	return b.String()
}

// cliString: the command-line spelling of a listener / channel input.
func cliString(in input, a, fwd string) string {
	if in.Raw != "" {
		return a // Raw templates are resolved into a by the caller
	}
	switch in.Pos {
	case posListener:
		s := in.Name + "~" + a
		if in.Fwd != "" {
			s += "~" + fwd
		}
		return s
	case posChannel:
		return in.Name + "->" + a
	}
	return a
}

// ---- outcome of a parse ------------------------------------------------------------------------

type pitem struct {
	Type   string `json:"type"`
	Scheme string `json:"scheme"`
	Host   string `json:"host"`
	Path   string `json:"path,omitempty"`
	Opaque string `json:"opaque,omitempty"`
	Name   string `json:"name,omitempty"`
	Fwd    string `json:"fwd,omitempty"`
	obj    interface{}
}

type pres struct {
	Panic    string  `json:"panic,omitempty"`
	PanicVal string  `json:"panic_value,omitempty"`
	Err      string  `json:"err,omitempty"`
	Items    []pitem `json:"items,omitempty"`
	NA       bool    `json:"not_applicable,omitempty"`
}

func (p pres) accepted() bool { return p.Panic == "" && p.Err == "" && !p.NA }

func (p pres) canon() string {
	if p.Panic != "" {
		return "panic"
	}
	if p.Err != "" {
		return "rejected"
	}
	var s []string
	for _, it := range p.Items {
		s = append(s, strings.Join([]string{it.Type, it.Scheme, it.Host, it.Path, it.Opaque, it.Name, it.Fwd}, ","))
	}
	return "accepted[" + strings.Join(s, ";") + "]"
}

func describe(obj interface{}) pitem {
	it := pitem{Type: fmt.Sprintf("%T", obj), obj: obj}
	var a *addr.ProtoAddress
	switch x := obj.(type) {
	case *server.SocketServer:
		a = &x.Address
	case *server.HttpServer:
		a = &x.Address
	case *server.IoServer:
		a = &x.Address
	case *server.PacketServer:
		a = &x.Address
	case *server.DnsServer:
		a = &x.Address
	case *server.NetworkChannel:
		a = &x.Address
		it.Name = x.Name()
	case *server.SocksChannel:
		a = &x.Address
		it.Name = x.Name()
	case *upstream.Socket:
		a = &x.Address
	case *upstream.Http:
		a = &x.Address
	case *upstream.InputOutput:
		a = &x.Address
	case *upstream.Packet:
		a = &x.Address
	case *upstream.Dns:
		a = &x.Address
	case *listener.SocketListener:
		a = &x.Address
		it.Name = x.Name
		if x.Forward != nil {
			it.Fwd = x.Forward.String()
		}
	case *listener.InputOutputListener:
		a = &x.Address
		it.Name = x.Name
		if x.Forward != nil {
			it.Fwd = x.Forward.String()
		}
	}
	if a != nil {
		it.Scheme, it.Host, it.Path, it.Opaque = a.Scheme, a.Host, a.Path, a.Opaque
	}
	return it
}

type parserSet struct {
	p  *flags.Parser
	sc *srvcmd.Command
	cc *clicmd.Command
}

// newParser builds the go-flags parser the way cmd/socketace/main.go does; commands are parsed but
// not executed.
func newParser() *parserSet {
	ps := &parserSet{p: flags.NewNamedParser("socketace", flags.HelpFlag)}
	ps.p.AddGroup("General", "General options", &args.General)
	ps.p.AddCommand("version", "Print the version", "Print the application version and exit", &version.Command{})
	ps.sc = srvcmd.NewCommand()
	ps.p.AddCommand("server", "Run the server", "Run a server listening to websocket requests", ps.sc)
	ps.cc = clicmd.NewCommand()
	ps.p.AddCommand("client", "Run the client", "Run a client connecting forwarding requests to websockets", ps.cc)
	ps.p.CommandHandler = func(flags.Commander, []string) error { return nil }
	return ps
}

func (ps *parserSet) collect(pos string) []pitem {
	var res []pitem
	switch pos {
	case posServer:
		for _, s := range ps.sc.Servers {
			res = append(res, describe(s))
		}
	case posChannel:
		for _, s := range ps.sc.Channels {
			res = append(res, describe(s))
		}
	case posUpstream:
		for _, s := range ps.cc.Upstream.Data {
			res = append(res, describe(s))
		}
	case posListener:
		for _, s := range ps.cc.ListenList {
			res = append(res, describe(s))
		}
	}
	return res
}

func guarded(f func() ([]pitem, error)) pres {
	var r pres
	var err error
	var items []pitem
	p, site, val := vcommon.Guard(func() { items, err = f() })
	if p {
		r.Panic, r.PanicVal = site, val
		return r
	}
	if err != nil {
		r.Err = firstLine(err.Error())
		return r
	}
	r.Items = items
	return r
}

func firstLine(s string) string {
	if i := strings.Index(s, "\n"); i >= 0 {
		s = s[:i]
	}
	if len(s) > 200 {
		s = s[:200]
	}
	return s
}

// parseForm runs one input through one input form of the real parsers.
func (e *env) parseForm(in input, form string, a, fwd string, n int) (pres, string) {
	cli := cliString(in, a, fwd)
	switch in.Pos + ":" + form {
	case "server:yaml", "channel:yaml":
		if in.Raw != "" {
			return pres{NA: true}, ""
		}
		key := map[string]string{posServer: "servers", posChannel: "channels"}[in.Pos]
		doc := yamlDoc("server", key, e.buildList(in, a), nil)
		return e.viaYAML(in.Pos, doc, n), doc
	case "server:json":
		txt := jsonOf(e.buildList(in, a))
		return guarded(func() ([]pitem, error) {
			var ss server.Servers
			if err := ss.UnmarshalJSON([]byte(txt)); err != nil {
				return nil, err
			}
			var r []pitem
			for _, s := range ss {
				r = append(r, describe(s))
			}
			return r, nil
		}), txt
	case "channel:json":
		if in.Raw != "" {
			return pres{NA: true}, ""
		}
		txt := jsonOf(e.buildList(in, a))
		return guarded(func() ([]pitem, error) {
			var cs server.Channels
			if err := cs.UnmarshalJSON([]byte(txt)); err != nil {
				return nil, err
			}
			var r []pitem
			for _, s := range cs {
				r = append(r, describe(s))
			}
			return r, nil
		}), txt
	case "server:cli":
		txt := jsonOf(e.buildList(in, a))
		return e.viaArgs(in.Pos, []string{"server", "--server", txt}), "--server " + txt
	case "channel:cli":
		if in.Shape != "" {
			return pres{NA: true}, ""
		}
		return e.viaArgs(in.Pos, []string{"server", "--channel", cli}), "--channel " + cli
	case "upstream:yaml":
		doc := yamlDoc("client", "upstream", []interface{}{a}, nil)
		return e.viaYAML(in.Pos, doc, n), doc
	case "upstream:yaml-scalar":
		doc := yamlDoc("client", "upstream", a, nil)
		return e.viaYAML(in.Pos, doc, n), doc
	case "upstream:cli":
		return e.viaArgs(in.Pos, []string{"client", "--upstream", a}), "--upstream " + a
	case "listener:yaml":
		doc := yamlDoc("client", "listen", []interface{}{cli}, nil)
		return e.viaYAML(in.Pos, doc, n), doc
	case "listener:yaml-maps":
		if in.Raw != "" {
			return pres{NA: true}, ""
		}
		m := map[string]interface{}{"name": in.Name, "address": a}
		if in.Fwd != "" {
			m["forward"] = fwd
		}
		doc := yamlDoc("client", "listen", []interface{}{m}, nil)
		return e.viaYAML(in.Pos, doc, n), doc
	case "listener:json":
		if in.Raw != "" {
			return pres{NA: true}, ""
		}
		m := map[string]interface{}{"name": in.Name, "address": a}
		if in.Fwd != "" {
			m["forward"] = fwd
		}
		txt := jsonOf(m)
		return e.viaArgs(in.Pos, []string{"client", "--upstream", "tcp://127.0.0.1:1", "--listen", txt}), "--listen " + txt
	case "listener:cli":
		return e.viaArgs(in.Pos, []string{"client", "--upstream", "tcp://127.0.0.1:1", "--listen", cli}), "--listen " + cli
	}
	return pres{NA: true}, ""
}

func (e *env) viaYAML(pos, doc string, n int) pres {
	file := filepath.Join(e.tmp, fmt.Sprintf("p%d.yaml", n))
	if err := ioutil.WriteFile(file, []byte(doc), 0600); err != nil {
		e.t.Fatal(err)
	}
	defer os.Remove(file)
	ps := newParser()
	return guarded(func() ([]pitem, error) {
		if err := scflags.NewYamlParser(ps.p).ParseFile(file); err != nil {
			return nil, err
		}
		return ps.collect(pos), nil
	})
}

func (e *env) viaArgs(pos string, argv []string) pres {
	ps := newParser()
	return guarded(func() ([]pitem, error) {
		if _, err := ps.p.ParseArgs(argv); err != nil {
			return nil, err
		}
		items := ps.collect(pos)
		if pos == posUpstream || pos == posListener {
			// listener cases carry a fixed --upstream; upstream cases have exactly the one under test
			if pos == posUpstream && len(items) > 1 {
				items = items[len(items)-1:]
			}
		}
		return items, nil
	})
}

func formsOf(in input) []string {
	switch in.Pos {
	case posServer:
		return []string{"yaml", "json", "cli"}
	case posChannel:
		if in.Raw != "" {
			return []string{"cli"}
		}
		return []string{"yaml", "json", "cli"}
	case posUpstream:
		return []string{"yaml", "yaml-scalar", "cli"}
	case posListener:
		if in.Raw != "" {
			return []string{"yaml", "cli"}
		}
		return []string{"yaml", "yaml-maps", "json", "cli"}
	}
	return nil
}

// ---- the "parse" monitor -------------------------------------------------------------------------

// sentinel: the plainest documented input of a position; a form that cannot take it is "not working"
// (reported through the documented inputs) and is left out of the metamorphic comparison.
func sentinel(pos string) input {
	return input{Pos: pos, Class: "documented", Addr: "tcp://127.0.0.1:{P}", Name: "ch", Want: "accept"}
}

func (e *env) formWorks(pos, form string) bool {
	k := pos + ":" + form
	if v, ok := e.works[k]; ok {
		return v
	}
	in := sentinel(pos)
	r, _ := e.parseForm(in, form, "tcp://127.0.0.1:1", "", 0)
	ok := r.accepted() && len(r.Items) == 1 && r.Items[0].Scheme == "tcp" && r.Items[0].Host == "127.0.0.1:1"
	e.works[k] = ok
	e.rec.Seen("input_forms_working", fmt.Sprintf("%s:%s=%v", pos, form, ok))
	return ok
}

func (e *env) parseCase(d caseDesc) {
	in := d.In
	abs := "/nonexistent/verif"
	a := resolve(in.Addr, 1, 2, abs, d.N)
	if in.Raw != "" {
		a = resolve(in.Raw, 1, 2, abs, d.N)
	}
	fwd := resolve(in.Fwd, 1, 2, abs, d.N)
	nat := naturalRef(in.Pos, a)
	if in.Raw != "" {
		nat = rawRef(in, a)
	}
	if in.Class == "bare-scheme" {
		nat = lookup(in.Pos, strings.ToLower(strings.TrimSpace(a)))
	}
	pc := in.parseClass()
	results := map[string]pres{}
	var order []string
	yamlOK, yamlPanic := false, false
	for _, form := range formsOf(in) {
		alt := form == "yaml-scalar" || form == "yaml-maps"
		if alt && in.Want != "accept" {
			continue // alternative spellings only matter for "some YAML spelling of a documented address works"
		}
		dd := d
		dd.Form = form
		r, text := e.parseForm(in, form, a, fwd, d.N)
		if r.NA {
			continue
		}
		results[form] = r
		order = append(order, form)
		e.rec.Case("parse|"+form+"|"+in.key(), true)
		e.rec.Stat("parse_evaluations:"+in.Pos+":"+form, 1)
		e.rec.Seen("parse_outcomes", in.Pos+":"+form+":"+in.Class+":"+strings.SplitN(r.canon(), "[", 2)[0])
		obsv := map[string]interface{}{"input_text": text, "result": r, "natural_reading": nat}
		fam := strings.SplitN(form, "-", 2)[0]
		if r.Panic != "" {
			if fam == "yaml" {
				yamlPanic = true
			}
			e.viol(fmt.Sprintf("%s:%s:%s:panic@%s", in.Pos, fam, in.panicClass(), r.Panic), dd, obsv)
			continue
		}
		if r.accepted() {
			if fam == "yaml" {
				yamlOK = true
			}
			if structural[in.Class] {
				e.viol(fmt.Sprintf("%s:%s:%s:accepted-without-address", in.Pos, fam, pc), dd, obsv)
				continue
			}
			if len(r.Items) != 1 {
				e.viol(fmt.Sprintf("%s:%s:%s:yields-%d-items", in.Pos, fam, pc, len(r.Items)), dd, obsv)
				continue
			}
			it := r.Items[0]
			if nat != nil {
				if it.Type != nat.GoType {
					e.viol(fmt.Sprintf("%s:%s:%s:wrong-type", in.Pos, fam, pc), dd, obsv)
				} else if it.Scheme != nat.Scheme {
					e.viol(fmt.Sprintf("%s:%s:%s:wrong-address", in.Pos, fam, pc), dd, obsv)
				} else if (in.Pos == posChannel || in.Pos == posListener) && in.Raw == "" && it.Name != in.Name {
					e.viol(fmt.Sprintf("%s:%s:%s:wrong-name", in.Pos, fam, pc), dd, obsv)
				}
			} else if in.Want == "accept" {
				e.viol(fmt.Sprintf("%s:%s:%s:wrong-address", in.Pos, fam, pc), dd, obsv)
			}
			// an undocumented scheme that is accepted is judged by the start monitors (it has to come up to matter)
		} else if in.Want == "accept" && !alt && !(form == "yaml" && (in.Pos == posUpstream || in.Pos == posListener)) {
			e.viol(fmt.Sprintf("%s:%s:%s:rejected", in.Pos, fam, pc), dd, obsv)
		}
	}
	// client YAML: some spelling of the documented address must work
	if (in.Pos == posUpstream || in.Pos == posListener) && in.Want == "accept" && !yamlOK && !yamlPanic {
		dd := d
		dd.Form = "yaml"
		e.viol(fmt.Sprintf("%s:yaml:documented:rejected", in.Pos), dd, results)
	}
	// the same item in a file that holds more than this item (c18_context_test.go)
	e.contextCases(d, a, fwd, results)
	// metamorphic: working input forms must agree with each other on every input
	if structural[in.Class] {
		return
	}
	refForm := ""
	for _, f := range []string{"json", "cli", "yaml"} {
		r, ok := results[f]
		if !ok || r.Panic != "" || !e.formWorks(in.Pos, f) {
			continue
		}
		if in.Pos == posChannel && f == "cli" && in.Want != "accept" {
			// "<name>-><protocol>:<address>" is a grammar of its own (tcp:127.0.0.1:22 is well-formed there
			// and is not a URL): only well-formed documented addresses are comparable with YAML/JSON
			continue
		}
		if refForm == "" {
			refForm = f
			continue
		}
		e.rec.Stat("metamorphic_comparisons", 1)
		e.rec.Case("meta|"+f+"|"+refForm+"|"+in.key(), true)
		if r.canon() != results[refForm].canon() {
			rel := "different-result"
			if r.accepted() != results[refForm].accepted() {
				rel = "accept-vs-reject"
			}
			dd := d
			dd.Form = f
			e.viol(fmt.Sprintf("%s:%s-vs-%s:%s:forms-disagree", in.Pos, f, refForm, rel), dd, map[string]interface{}{refForm: results[refForm], f: r})
		}
	}
}

// rawRef: natural reading of a literal command-line string of a listener / channel.
func rawRef(in input, s string) *ref {
	switch in.Pos {
	case posListener:
		p := strings.Split(s, "~")
		if len(p) >= 2 {
			return naturalRef(in.Pos, p[1])
		}
	case posChannel:
		if i := strings.Index(s, "->"); i >= 0 {
			return naturalRef(in.Pos, s[i+2:])
		}
	}
	return nil
}

// ---- the "start" monitor -------------------------------------------------------------------------

func startable(in input) bool {
	if in.Shape != "" {
		return false
	}
	sch := readScheme(in.Addr)
	if sch == "unixpacket+tls" {
		return false // TLS records over SOCK_SEQPACKET: undocumented, the handshake never completes either way
	}
	if in.Pos == posUpstream {
		if r := lookup(posUpstream, sch); r != nil && r.Kind == "packet" {
			// KCP datagrams to an empty / unresolvable address vanish without any event and the client
			// waits for ever: a packet upstream is only started when the recorder is certain to sit where
			// the address points (udp4/udp6: undocumented, parse monitor only)
			ok := map[string]bool{"documented": true, "unix-rel-path": true, "extension": true, "case-variant": true,
				"udp-password": true, "documented-by-mutation": true, "url-extras": true}[in.Class]
			if !ok || strings.Contains(in.Addr, "{ABS}") || sch == "udp6" || sch == "udp4" || !strings.Contains(in.Addr, sch+"://") && !strings.Contains(strings.ToLower(in.Addr), sch+"://") {
				return false
			}
		}
	}
	if in.Pos == posChannel && in.Raw != "" {
		return false
	}
	return true
}

func unexported(ptr interface{}, name string) (reflect.Value, bool) {
	v := reflect.ValueOf(ptr)
	if v.Kind() != reflect.Ptr || v.Elem().Kind() != reflect.Struct {
		return reflect.Value{}, false
	}
	f := v.Elem().FieldByName(name)
	if !f.IsValid() {
		return reflect.Value{}, false
	}
	return reflect.NewAt(f.Type(), unsafe.Pointer(f.UnsafeAddr())).Elem(), true
}

type startObs struct {
	Input     string      `json:"input"`
	Natural   *ref        `json:"natural_reading"`
	ParseErr  string      `json:"parse_error,omitempty"`
	StartErr  string      `json:"start_error,omitempty"`
	Bound     string      `json:"bound_at,omitempty"`
	Expected  string      `json:"expected_at,omitempty"`
	Observed  *obs        `json:"observed,omitempty"`
	Flight    *flight     `json:"flight,omitempty"`
	Secure    interface{} `json:"secure_flag,omitempty"`
	Note      string      `json:"note,omitempty"`
	Shutdown  string      `json:"shutdown,omitempty"`
	GaveUp    bool        `json:"gave_up,omitempty"`
	ParsedAs  *pitem      `json:"parsed_as,omitempty"`
	DirectHit bool        `json:"forward_target_hit,omitempty"`
	Use       int         `json:"use_of_the_same_object,omitempty"` // 2, 3, ...: the object had been used before
	FirstUse  *obs        `json:"observed_at_first_use,omitempty"`
}

func (e *env) startCase(d caseDesc) {
	switch d.In.Pos {
	case posServer:
		e.startServer(d)
	case posUpstream:
		e.startUpstream(d)
	case posListener:
		e.startListener(d)
	case posChannel:
		e.startChannel(d)
	}
}

// sigT: signature of something observed after start-up (independent of the input form).
func sigT(in input, kind string) string {
	return fmt.Sprintf("%s:%s:%s", in.Pos, in.Class, kind)
}

// judgeTransport compares an observed transport with the reference for an input that came up.
// lenient: the input was expected to be rejected, but what came up sits exactly at an endpoint the
// text of the address names (a forgiving reading of a misplaced host:port / path): then only the
// transport is compared.
func (e *env) judgeTransport(d caseDesc, form string, nat *ref, a string, o obs, so *startObs, lenient bool) {
	e.judgeTransportPhase(d, form, nat, a, o, so, lenient, "")
}

// phaseReuse marks what is observed when a configured object is used again (second Connect of an
// upstream, second connection through a listener / channel, second client of a server): the address
// means the same on every use, so the observation is judged by the same table; the signature tells
// the two apart.
const phaseReuse = "reuse-"

// judgeTransportPhase: true = the observation agrees with the table (nothing reported).
func (e *env) judgeTransportPhase(d caseDesc, form string, nat *ref, a string, o obs, so *startObs, lenient bool, phase string) bool {
	in := d.In
	d.Form = form
	if nat != nil && in.Want == "reject" && lenient {
		e.rec.Seen("lenient_readings_accepted", in.Pos+":"+in.Class)
	}
	if nat == nil || (in.Want == "reject" && !lenient) {
		kind := "accepted"
		if o.Kind != "" && asksEncryption(a) && !o.TLS {
			kind = "unencrypted"
		}
		e.viol(sigT(in, phase+kind), d, so)
		return false
	}
	if o.Kind == "" {
		if in.Class == "udp-password" {
			// a password-protected UDP endpoint speaks AES-encrypted KCP: no plaintext probe can (or should)
			// identify it; that it came up on the datagram socket and answers no plaintext probe is the expected outcome
			e.rec.Seen("udp_password_endpoints_not_answering_plaintext_probes", in.Pos+":"+d.Form)
			return false
		}
		if in.NoCert && nat.TLS {
			// a TLS endpoint without a certificate can complete no handshake at all: it came up, but it answers neither the
			// plaintext nor the TLS probes, so nothing is carried unencrypted
			e.rec.Seen("tls_endpoints_without_certificate_that_came_up_and_serve_nobody", in.Pos+":"+readScheme(in.Addr))
			return false
		}
		e.rec.Inconclusive("endpoint came up but no probe identified it: "+o.Detail, d)
		return false
	}
	netOK := o.Net == nat.Net || (nat.Net == "udp|tcp" && (o.Net == "udp" || o.Net == "tcp"))
	switch {
	case nat.TLS && !o.TLS:
		e.viol(sigT(in, phase+"unencrypted"), d, so)
	case !nat.TLS && o.TLS:
		e.viol(sigT(in, phase+"unexpectedly-encrypted"), d, so)
	case o.Kind != nat.Kind || !netOK:
		e.viol(sigT(in, phase+"wrong-transport"), d, so)
	default:
		return true
	}
	return false
}

func isAddrInUse(s string) bool { return strings.Contains(s, "address already in use") }

func (e *env) startServer(d caseDesc) {
	in := d.In
	for attempt := 0; attempt < 4; attempt++ {
		p, f := freePort(), 0
		a := resolve(in.Addr, p, f, e.tmp, d.N*100+attempt)
		nat := naturalRef(in.Pos, a)
		so := &startObs{Input: a, Natural: nat}
		txt := jsonOf(e.buildList(in, a))
		var ss server.Servers
		pr := guarded(func() ([]pitem, error) {
			if err := ss.UnmarshalJSON([]byte(txt)); err != nil {
				return nil, err
			}
			return nil, nil
		})
		key := "start|" + in.key()
		if !pr.accepted() || len(ss) != 1 {
			so.ParseErr = pr.Err + pr.Panic
			e.rec.Case(key, true)
			e.rec.Seen("start_outcomes", in.Pos+":"+in.Class+":rejected-at-parse")
			return // rejected documented inputs and panics are reported by the parse monitor
		}
		srv := ss[0]
		pi := describe(srv)
		so.ParsedAs = &pi
		var stdinW, stdoutR *os.File
		switch s := srv.(type) {
		case *server.IoServer:
			ir, iw, _ := os.Pipe()
			or, ow, _ := os.Pipe()
			s.Input, s.Output = ir, ow
			stdinW, stdoutR = iw, or
			defer func() { iw.Close(); or.Close(); ir.Close(); ow.Close() }()
		case *server.DnsServer:
			if e.dnsUsed {
				e.rec.Stat("start_skipped_second_dns_server_in_process", 1)
				return
			}
			e.dnsUsed = true
		}
		var serr error
		pan, site, val := vcommon.Guard(func() { serr = srv.Startup(server.Channels{}) })
		if pan {
			e.rec.Case(key, true)
			d.Form = "json"
			so.StartErr = val
			e.viol(fmt.Sprintf("%s:start:%s:panic@%s", in.Pos, in.panicClass(), site), d, so)
			return
		}
		if serr != nil {
			so.StartErr = firstLine(serr.Error())
			if isAddrInUse(serr.Error()) && attempt < 3 {
				continue
			}
			e.rec.Case(key, true)
			e.rec.Seen("start_outcomes", in.Pos+":"+in.Class+":rejected-at-startup")
			if in.Want == "accept" {
				d.Form = "json"
				e.viol(sigT(in, "rejected-at-startup"), d, so)
			}
			return
		}
		// it started: from here on everything it opened is shut down again
		shutdown := func() {
			pan, site, val := vcommon.Guard(func() {
				if err := srv.Shutdown(); err != nil {
					so.Shutdown = firstLine(err.Error())
				}
			})
			if pan {
				so.Shutdown = "panic@" + site + ": " + val
			}
		}
		defer shutdown()
		e.rec.Case(key, true)
		e.rec.Seen("start_outcomes", in.Pos+":"+in.Class+":started")
		if _, isIo := srv.(*server.IoServer); !isIo { // IoServer.secure is a dead field: Startup keeps the state in a local
			if sv, ok := unexported(srv, "secure"); ok {
				so.Secure = sv.Bool()
			}
		}
		network, where := endpointOf(nat, a, e.tmp)
		so.Expected = network + " " + where
		// where did it really bind?
		bound := ""
		if lv, ok := unexported(srv, "listener"); ok && !lv.IsNil() {
			if l, ok := lv.Interface().(net.Listener); ok && l != nil {
				if _, isDns := srv.(*server.DnsServer); !isDns {
					bound = l.Addr().String()
				}
			}
		}
		if ps, ok := srv.(*server.PacketServer); ok && ps.PacketConnection != nil {
			bound = ps.PacketConnection.LocalAddr().String()
		}
		so.Bound = bound
		var o obs
		lenient := false
		target, tnet := "", ""
		switch srv.(type) {
		case *server.IoServer:
			o = probeStdio(stdinW, stdoutR, nat != nil && nat.TLS)
		default:
			named := namedEndpoints(a, nat, e.tmp)
			target = where
			tnet = network
			if bound != "" {
				target = bound
			} else if target == "" && len(named) > 0 {
				target = named[0]
			}
			if tnet == "" && nat != nil {
				tnet = strings.SplitN(nat.Net, "|", 2)[0]
			}
			if tnet == "" || tnet == "stdio" || tnet == "-" {
				// unknown scheme that came up: find out what it is, on whatever it bound
				tnet = "tcp"
				if _, ok := srv.(*server.PacketServer); ok {
					tnet = "udp"
				}
			}
			if target != "" {
				o = e.classifyEndpoint(tnet, target, nat)
			} else {
				o = obs{Detail: "Startup returned nil; the address names no endpoint and the socket is not reachable from the harness"}
			}
			if bound != "" {
				lenient = namedHit(tnet, bound, named)
			} else {
				lenient = o.Kind != "" && namedHit(tnet, target, named)
			}
		}
		so.Observed = &o
		e.rec.Seen("observed_transports", in.Pos+":"+o.String())
		wellFormed := in.Want == "accept"
		if wellFormed && bound != "" && where != "" && !sameEndpoint(network, bound, where) {
			d.Form = "start"
			e.viol(sigT(in, "listens-elsewhere"), d, so)
		}
		good := e.judgeTransportPhase(d, "start", nat, a, o, so, lenient, "")
		if nat != nil && in.Want != "reject" && so.Secure != nil && so.Secure.(bool) != nat.TLS {
			d.Form = "start"
			e.viol(sigT(in, "secure-flag-mismatch"), d, so)
		}
		e.rec.Stat("start_probed_endpoints", 1)
		// a server serves more than one client: the next one has to find the same transport
		// (a stdio server has one peer only)
		if good && target != "" {
			for use := 2; use <= 1+e.rec.Pick(1, 2); use++ {
				o2 := e.classifyEndpoint(tnet, target, nat)
				so2 := *so
				so2.Use, so2.FirstUse, so2.Observed = use, &o, &o2
				e.rec.Case("start-reuse|"+in.key(), true)
				e.rec.Stat("reuse_observations:server", 1)
				e.rec.Seen("observed_transports", in.Pos+":"+phaseReuse+o2.String())
				if !e.judgeTransportPhase(d, "start", nat, a, o2, &so2, lenient, phaseReuse) {
					break
				}
			}
		}
		return
	}
	e.rec.Inconclusive("no free port after 4 attempts", d)
}

func sameEndpoint(network, bound, want string) bool {
	if network == "tcp" || network == "udp" {
		bh, bp, _ := net.SplitHostPort(bound)
		wh, wp, _ := net.SplitHostPort(want)
		return bp == wp && (bh == wh || wh == "")
	}
	if bound != "" && !strings.HasPrefix(bound, "/") && !strings.HasPrefix(bound, "@") {
		cwd, _ := os.Getwd()
		bound = filepath.Join(cwd, bound) // the harness and its children run in the same directory
	}
	return bound == want
}

// classifyEndpoint dispatches on the socket family.
func (e *env) classifyEndpoint(network, where string, nat *ref) obs {
	switch network {
	case "tcp", "unix", "unixpacket":
		if nat != nil && nat.Kind == "dns" {
			n := "tcp"
			if nat.TLS {
				n = "tcp-tls"
			}
			ok, dt := probeDNS(n, where, "example.org")
			if ok {
				return obs{Kind: "dns", Net: "tcp", TLS: nat.TLS, Detail: dt}
			}
			o := classifyStream(network, where, "/ws/all", nil)
			o.Detail = "dns: " + dt + " | " + o.Detail
			return o
		}
		o := classifyStream(network, where, "/ws/all", nat)
		if o.Kind == "" && network == "tcp" {
			if ok, dt := probeDNS("tcp", where, "example.org"); ok {
				return obs{Kind: "dns", Net: "tcp", Detail: dt}
			}
		}
		return o
	case "udp", "unixgram":
		if nat != nil && nat.Kind == "dns" {
			ok, dt := probeDNS("udp", where, "example.org")
			if ok {
				return obs{Kind: "dns", Net: "udp", Detail: dt}
			}
			return obs{Detail: "dns: " + dt}
		}
		ok, dt := probeKCP(network, where, e.tmp)
		if ok {
			return obs{Kind: "packet", Net: network, Detail: dt}
		}
		if network == "udp" {
			if ok2, dt2 := probeDNS("udp", where, "example.org"); ok2 {
				return obs{Kind: "dns", Net: "udp", Detail: dt2}
			}
		}
		return obs{Detail: "kcp: " + dt}
	}
	return obs{Detail: "no probe for " + network}
}

// pipeConn makes a net.Conn of a reader and a writer (stdio of a server / client).
type pipeConn struct {
	r io.ReadCloser
	w io.WriteCloser
}

func (p *pipeConn) Read(b []byte) (int, error)  { return p.r.Read(b) }
func (p *pipeConn) Write(b []byte) (int, error) { return p.w.Write(b) }
func (p *pipeConn) Close() error                { p.w.Close(); return p.r.Close() }
func (p *pipeConn) LocalAddr() net.Addr         { return &addr.StandardIOAddress{Address: "verif"} }
func (p *pipeConn) RemoteAddr() net.Addr        { return &addr.StandardIOAddress{Address: "sut"} }
func (p *pipeConn) SetDeadline(t time.Time) error {
	p.SetReadDeadline(t)
	return p.SetWriteDeadline(t)
}
func (p *pipeConn) SetReadDeadline(t time.Time) error {
	if f, ok := p.r.(*os.File); ok {
		return f.SetReadDeadline(t)
	}
	return nil
}
func (p *pipeConn) SetWriteDeadline(t time.Time) error {
	if f, ok := p.w.(*os.File); ok {
		return f.SetWriteDeadline(t)
	}
	return nil
}

// probeStdio talks to a stdio server through its stdin (w) / stdout (r).
func probeStdio(w io.WriteCloser, r io.ReadCloser, tryTLSFirst bool) obs {
	c := &pipeConn{r: r, w: w}
	if tryTLSFirst {
		tc := tlsClientOver(c)
		c.SetDeadline(time.Now().Add(ioWait))
		if err := tc.Handshake(); err != nil {
			return obs{Detail: "tls over stdio: " + err.Error()}
		}
		ok, h := probeAnnounceOn(tc)
		if ok {
			return obs{Kind: "stdio", Net: "stdio", TLS: true, Detail: clipS(h, 80)}
		}
		return obs{Detail: "tls handshake ok, announce: " + clipS(h, 80)}
	}
	ok, h := probeAnnounceOn(c)
	if ok {
		return obs{Kind: "stdio", Net: "stdio", Detail: clipS(h, 80)}
	}
	return obs{Detail: "plain announce over stdio: " + clipS(h, 80)}
}

type clientCfg struct{ c cert.ClientConfig }

func (c *clientCfg) CertManager() cert.TlsConfig { return &c.c }

// recorderFor creates the recording endpoint an upstream/channel address should reach and returns the
// address to put into the template.
type recSetup struct {
	rec   *recorder
	port  int
	close func()
}

func (e *env) recorderFor(nat *ref, tmplAddr string, n int, hold bool) (*recSetup, string, error) {
	network := "tcp"
	if nat != nil {
		network = nat.Net
	}
	rs := &recSetup{}
	switch network {
	case "udp":
		r, pc, err := newKCPRecorder("udp", "127.0.0.1:0")
		if err != nil {
			return nil, "", err
		}
		rs.rec, rs.port = r, pc.LocalAddr().(*net.UDPAddr).Port
	case "udp|tcp": // dns
		for i := 0; i < 5; i++ {
			p := freePort()
			r, err := newDNSRecorder(p, "example.org")
			if err == nil {
				rs.rec, rs.port = r, p
				break
			}
		}
		if rs.rec == nil {
			return nil, "", fmt.Errorf("no port for the dns recorder")
		}
	case "unix", "unixpacket", "unixgram":
		a := resolve(tmplAddr, 0, 0, e.tmp, n)
		_, where := endpointOf(nat, a, e.tmp)
		if where == "" {
			if nm := namedEndpoints(a, nat, e.tmp); len(nm) > 0 {
				where = nm[0]
			}
		}
		dirOK := false
		if where != "" {
			st, err := os.Stat(filepath.Dir(filepath.Clean(where)))
			dirOK = err == nil && st.IsDir()
		}
		if where == "" || strings.HasSuffix(where, "/") || !strings.HasPrefix(filepath.Clean(where), e.tmp+"/") || !dirOK {
			// no path in the address (or a damaged one that points into a directory that does not exist): nothing to listen on
			rs.rec = &recorder{C: make(chan flight, 1)}
			break
		}
		os.Remove(where)
		if network == "unixgram" {
			r, _, err := newKCPRecorder("unixgram", where)
			if err != nil {
				return nil, "", err
			}
			rs.rec = r
		} else {
			r, _, err := newStreamRecorder(network, where, e.crt)
			if err != nil {
				return nil, "", err
			}
			rs.rec = r
		}
		w := where
		rs.close = func() { os.Remove(w) }
	default: // tcp and everything unknown
		r, l, err := newStreamRecorder("tcp", "127.0.0.1:0", e.crt)
		if err != nil {
			return nil, "", err
		}
		rs.rec, rs.port = r, l.Addr().(*net.TCPAddr).Port
	}
	a := resolve(tmplAddr, rs.port, 0, e.tmp, n)
	return rs, a, nil
}

func (rs *recSetup) Close() {
	if rs.rec != nil {
		rs.rec.Close()
	}
	if rs.close != nil {
		rs.close()
	}
}

func (e *env) startUpstream(d caseDesc) {
	in := d.In
	nat0 := naturalRef(in.Pos, resolve(in.Addr, 1, 2, e.tmp, d.N))
	key := "start|" + in.key()
	if nat0 != nil && nat0.Kind == "dns" {
		e.rec.Stat("start_skipped_dns_upstream_inprocess(black-box only)", 1)
		return
	}
	if nat0 != nil && nat0.Kind == "packet" && in.Class == "missing-hostport" {
		e.rec.Stat("start_skipped_packet_upstream_without_host", 1)
		return
	}
	rs, a, err := e.recorderFor(nat0, in.Addr, d.N, false)
	if err != nil {
		e.rec.Inconclusive("recorder: "+err.Error(), d)
		return
	}
	defer rs.Close()
	nat := naturalRef(in.Pos, a)
	if in.Class == "bare-scheme" {
		nat = lookup(in.Pos, strings.ToLower(strings.TrimSpace(a)))
	}
	so := &startObs{Input: a, Natural: nat}
	var ups upstream.Upstreams
	pr := guarded(func() ([]pitem, error) { return nil, ups.UnmarshalFlag(a) })
	if !pr.accepted() || len(ups.Data) != 1 {
		so.ParseErr = pr.Err + pr.Panic
		e.rec.Case(key, true)
		e.rec.Seen("start_outcomes", in.Pos+":"+in.Class+":rejected-at-parse")
		return // documented-but-rejected is reported by the parse monitor (cli form)
	}
	u := ups.Data[0]
	pi := describe(u)
	so.ParsedAs = &pi
	stdioFlight := make(chan flight, 1)
	_, isStdio := u.(*upstream.InputOutput)
	if io_, ok := u.(*upstream.InputOutput); ok {
		ir, iw, _ := os.Pipe()
		or, ow, _ := os.Pipe()
		io_.Input, io_.Output = ir, ow
		defer func() { iw.Close(); or.Close(); ir.Close(); ow.Close() }()
		r := &recorder{C: stdioFlight}
		go r.handleStream(&pipeConn{r: or, w: iw}, "stdio", e.crt, false)
	}
	// one use of the upstream object: Connect, and the first flight the recorder saw of it
	connectOnce := func() (fl *flight, result string, ok bool) {
		done := make(chan string, 1)
		go func() {
			var cerr error
			pan, site, val := vcommon.Guard(func() { cerr = u.Connect(&cert.ClientConfig{InsecureSkipVerify: true}, false) })
			switch {
			case pan:
				done <- "panic@" + site + ": " + val
			case cerr != nil:
				done <- "error: " + firstLine(cerr.Error())
			default:
				done <- "connected"
			}
		}()
		wd := time.After(watchdog)
		for fl == nil && result == "" {
			select {
			case f := <-rs.rec.C:
				fl = &f
			case f := <-stdioFlight:
				fl = &f
			case result = <-done:
			case <-wd:
				e.rec.Inconclusive("watchdog: upstream neither emitted anything nor gave up", d)
				return nil, "", false
			}
		}
		if result == "" {
			select {
			case result = <-done:
			case <-time.After(watchdog):
				result = connectPending
				e.rec.Stat("upstream_connect_never_returned", 1)
			}
		} else {
			// Connect returned; a flight may still be queued
			select {
			case f := <-rs.rec.C:
				fl = &f
			case f := <-stdioFlight:
				fl = &f
			default:
			}
		}
		return fl, result, true
	}
	fl, result, ok := connectOnce()
	if !ok {
		return
	}
	so.StartErr = result
	so.Flight = fl
	e.rec.Case(key, true)
	d.Form = "start"
	if strings.HasPrefix(result, "panic@") {
		e.viol(fmt.Sprintf("%s:start:%s:%s", in.Pos, in.panicClass(), strings.SplitN(result, ": ", 2)[0]), d, so)
		return
	}
	if fl == nil || fl.Outer == "eof" {
		e.rec.Seen("start_outcomes", in.Pos+":"+in.Class+":no-emission("+strings.SplitN(result, ":", 2)[0]+")")
		if in.Want == "accept" {
			e.viol(sigT(in, "never-connects"), d, so)
		}
		return
	}
	toObs := func(fl *flight) obs {
		o := fl.asObs()
		if nat != nil && nat.Kind == "stdio" && fl.Net == "stdio" && o.Kind == "socket" {
			o.Kind = "stdio"
		}
		return o
	}
	o := toObs(fl)
	so.Observed = &o
	e.rec.Seen("start_outcomes", in.Pos+":"+in.Class+":emitted")
	e.rec.Seen("observed_transports", in.Pos+":"+o.String())
	e.rec.Stat("start_probed_endpoints", 1)
	good := e.judgeTransportPhase(d, "start", nat, a, o, so, true, "") // the recorder sits at the endpoint the text names
	// The upstream object lives as long as the client does and is connected again whenever the carrier has to
	// be (re)opened: first attempt failed, session lost, fail-over list walked again. Every use has to select
	// the transport the address names. (A process has one stdio: a stdio upstream is not connected twice.)
	if !good || isStdio || result == connectPending {
		return
	}
	for use := 2; use <= 1+e.rec.Pick(2, 4); use++ {
		for drained := false; !drained; {
			select {
			case <-rs.rec.C:
			default:
				drained = true
			}
		}
		fl2, result2, ok := connectOnce()
		if !ok {
			return
		}
		so2 := *so
		so2.Use, so2.FirstUse, so2.StartErr, so2.Flight, so2.Observed = use, &o, result2, fl2, nil
		e.rec.Case("start-reuse|"+in.key(), true)
		e.rec.Stat("reuse_observations:upstream", 1)
		if strings.HasPrefix(result2, "panic@") {
			e.viol(fmt.Sprintf("%s:start:%s:%s%s", in.Pos, in.panicClass(), phaseReuse, strings.SplitN(result2, ": ", 2)[0]), d, &so2)
			return
		}
		if fl2 == nil || fl2.Outer == "eof" {
			e.rec.Seen("start_outcomes", in.Pos+":"+in.Class+":"+phaseReuse+"no-emission("+strings.SplitN(result2, ":", 2)[0]+")")
			if in.Want == "accept" {
				e.viol(sigT(in, phaseReuse+"never-connects"), d, &so2)
			}
			return
		}
		o2 := toObs(fl2)
		so2.Observed = &o2
		e.rec.Seen("observed_transports", in.Pos+":"+phaseReuse+o2.String())
		if !e.judgeTransportPhase(d, "start", nat, a, o2, &so2, true, phaseReuse) || result2 == connectPending {
			return
		}
	}
}

const connectPending = "(connect still pending after the recorder refused it)"

func (e *env) startListener(d caseDesc) {
	in := d.In
	key := "start|" + in.key()
	// the upstream every listener hands its connections to: a recorder
	up, ul, err := newStreamRecorder("tcp", "127.0.0.1:0", e.crt)
	if err != nil {
		e.rec.Inconclusive("recorder: "+err.Error(), d)
		return
	}
	defer up.Close()
	// forward target: a plain recorder where the forward part points (TCP port or unix socket)
	fN := d.N * 100
	ft, err := e.forwardTarget(in, fN)
	if err != nil {
		e.rec.Inconclusive("recorder: "+err.Error(), d)
		return
	}
	defer ft.Close()
	fport := ft.Port()
	for attempt := 0; attempt < 4; attempt++ {
		p := freePort()
		uniq := d.N*100 + attempt
		a := resolve(in.Addr, p, fport, e.tmp, uniq)
		fwd := resolve(in.Fwd, p, fport, e.tmp, fN)
		var nat *ref
		cli := ""
		if in.Raw != "" {
			cli = resolve(in.Raw, p, fport, e.tmp, uniq)
			nat = rawRef(in, cli)
			a = cli
			if pp := strings.Split(cli, "~"); len(pp) >= 2 {
				a = pp[1]
			}
		} else {
			cli = cliString(in, a, fwd)
			nat = naturalRef(in.Pos, a)
		}
		so := &startObs{Input: cli, Natural: nat}
		var ll listener.Listeners
		pr := guarded(func() ([]pitem, error) { return nil, ll.UnmarshalFlag(cli) })
		if !pr.accepted() || len(ll) != 1 {
			so.ParseErr = pr.Err + pr.Panic
			e.rec.Case(key, true)
			e.rec.Seen("start_outcomes", in.Pos+":"+in.Class+":rejected-at-parse")
			return
		}
		l := ll[0]
		pi := describe(l)
		so.ParsedAs = &pi
		ups := &upstream.Upstreams{Data: []upstream.Upstream{&upstream.Socket{Address: addr.MustParseAddress("tcp://" + ul.Addr().String())}}}
		cfg := &clientCfg{c: cert.ClientConfig{InsecureSkipVerify: true}}
		var stdinW, stdoutR *os.File
		if iol, ok := l.(*listener.InputOutputListener); ok {
			ir, iw, _ := os.Pipe()
			or, ow, _ := os.Pipe()
			iol.InputOutput = streams.NewSimulatedConnection(streams.NewReadWriteCloser(ir, ow), &addr.StandardIOAddress{Address: "in"}, &addr.StandardIOAddress{Address: "out"})
			stdinW, stdoutR = iw, or
			defer func() { iw.Close(); or.Close(); ir.Close(); ow.Close() }()
		}
		_ = stdoutR
		var serr error
		pan, site, val := vcommon.Guard(func() { serr = l.Start(ups, cfg) })
		d.Form = "start"
		if pan {
			e.rec.Case(key, true)
			so.StartErr = val
			e.viol(fmt.Sprintf("%s:start:%s:panic@%s", in.Pos, in.panicClass(), site), d, so)
			return
		}
		if serr != nil {
			so.StartErr = firstLine(serr.Error())
			if isAddrInUse(serr.Error()) && attempt < 3 {
				continue
			}
			e.rec.Case(key, true)
			e.rec.Seen("start_outcomes", in.Pos+":"+in.Class+":rejected-at-startup")
			if in.Want == "accept" {
				e.viol(sigT(in, "rejected-at-startup"), d, so)
			}
			return
		}
		defer func() {
			vcommon.Guard(func() { l.Shutdown() })
			ups.Shutdown()
		}()
		e.rec.Case(key, true)
		e.rec.Seen("start_outcomes", in.Pos+":"+in.Class+":started")
		network, where := endpointOf(nat, a, e.tmp)
		so.Expected = network + " " + where
		bound := ""
		if lv, ok := unexported(l, "netListener"); ok && !lv.IsNil() {
			if nl, ok := lv.Interface().(net.Listener); ok {
				bound = nl.Addr().String()
			}
		}
		so.Bound = bound
		if _, ok := l.(*listener.InputOutputListener); ok {
			// a stdio listener connects to the upstream (or the forward target) by itself
			if in.Fwd != "" {
				stdinW.Write([]byte("ping")) // what the user types: a forward target that is connected to gets to see it
			}
			o := obs{Kind: "stdio", Net: "stdio"}
			select {
			case f := <-up.C:
				so.Flight = &f
				o.Detail = "upstream saw " + f.Outer
			case f := <-ft.C():
				so.Flight = &f
				so.DirectHit = true
				o.Detail = "forward target saw " + f.Outer
			case <-time.After(watchdog):
				e.rec.Inconclusive("watchdog: stdio listener reached neither the upstream nor the forward target", d)
				return
			}
			so.Observed = &o
			e.rec.Seen("observed_transports", in.Pos+":"+o.String())
			e.judgeTransport(d, "start", nat, a, o, so, true)
			e.judgeForward(d, cli, fwd, ft, so.Flight, so.DirectHit, 1, so)
			return
		}
		if bound == "" {
			e.rec.Inconclusive("listener started but its socket cannot be found", d)
			return
		}
		wellFormed := in.Want == "accept"
		if wellFormed && where != "" && !sameEndpoint(network, bound, where) {
			e.viol(sigT(in, "listens-elsewhere"), d, so)
		}
		// connect to wherever it listens: the connection must surface at the upstream (or the forward target)
		dn := network
		if dn == "" && nat != nil {
			dn = nat.Net
		}
		if dn == "" {
			dn = "tcp"
		}
		c, err := net.DialTimeout(dn, bound, ioWait)
		if err != nil {
			so.Note = "dial " + dn + " " + bound + ": " + err.Error()
			e.rec.Inconclusive("listener socket not connectable: "+so.Note, d)
			return
		}
		defer c.Close()
		c.Write([]byte("ping"))
		var o obs
		fc := ft.C()
		select {
		case f := <-up.C:
			so.Flight = &f
			o = obs{Kind: "socket", Net: dn, Detail: "upstream saw " + f.Outer}
		case f := <-fc:
			so.Flight = &f
			so.DirectHit = true
			o = obs{Kind: "socket", Net: dn, Detail: "forward target saw " + f.Outer}
		case <-time.After(watchdog):
			e.rec.Inconclusive("watchdog: accepted connection reached neither upstream nor forward target", d)
			return
		}
		so.Observed = &o
		e.rec.Seen("observed_transports", in.Pos+":"+o.String())
		e.rec.Stat("start_probed_endpoints", 1)
		lenient := namedHit(dn, bound, namedEndpoints(a, nat, e.tmp))
		good := e.judgeTransportPhase(d, "start", nat, a, o, so, lenient, "")
		if !e.judgeForward(d, cli, fwd, ft, so.Flight, so.DirectHit, 1, so) {
			good = false
		}
		// a listener takes more than one connection: the next one has to surface the same way
		for use := 2; good && use <= 1+e.rec.Pick(1, 2); use++ {
			c2, err := net.DialTimeout(dn, bound, ioWait)
			if err != nil {
				e.rec.Inconclusive("listener socket not connectable a second time: dial "+dn+" "+bound+": "+err.Error(), d)
				return
			}
			defer c2.Close()
			c2.Write([]byte("ping"))
			so2 := *so
			so2.Use, so2.FirstUse, so2.Observed, so2.Flight, so2.DirectHit = use, &o, nil, nil, false
			var o2 obs
			select {
			case f := <-up.C:
				so2.Flight = &f
				o2 = obs{Kind: "socket", Net: dn, Detail: "upstream saw " + f.Outer}
			case f := <-fc:
				so2.Flight = &f
				so2.DirectHit = true
				o2 = obs{Kind: "socket", Net: dn, Detail: "forward target saw " + f.Outer}
			case <-time.After(watchdog):
				e.rec.Inconclusive("watchdog: second accepted connection reached neither upstream nor forward target", d)
				return
			}
			so2.Observed = &o2
			e.rec.Case("start-reuse|"+in.key(), true)
			e.rec.Stat("reuse_observations:listener", 1)
			e.rec.Seen("observed_transports", in.Pos+":"+phaseReuse+o2.String())
			good = e.judgeTransportPhase(d, "start", nat, a, o2, &so2, lenient, phaseReuse)
			if good && !e.judgeForward(d, cli, fwd, ft, so2.Flight, so2.DirectHit, use, &so2) {
				good = false
			}
		}
		return
	}
	e.rec.Inconclusive("no free port after 4 attempts", d)
}

func (e *env) startChannel(d caseDesc) {
	in := d.In
	key := "start|" + in.key()
	nat0 := naturalRef(in.Pos, resolve(in.Addr, 1, 2, e.tmp, d.N))
	var rs *recSetup
	var a string
	if nat0 != nil && nat0.Kind == "socks" {
		a = resolve(in.Addr, 1, 2, e.tmp, d.N)
		rs = &recSetup{rec: &recorder{C: make(chan flight, 1)}}
	} else {
		var err error
		rs, a, err = e.recorderFor(nat0, in.Addr, d.N, true)
		if err != nil {
			e.rec.Inconclusive("recorder: "+err.Error(), d)
			return
		}
	}
	defer rs.Close()
	nat := naturalRef(in.Pos, a)
	so := &startObs{Input: a, Natural: nat}
	txt := jsonOf(e.buildList(in, a))
	var cs server.Channels
	pr := guarded(func() ([]pitem, error) { return nil, cs.UnmarshalJSON([]byte(txt)) })
	if !pr.accepted() || len(cs) != 1 {
		so.ParseErr = pr.Err + pr.Panic
		e.rec.Case(key, true)
		e.rec.Seen("start_outcomes", in.Pos+":"+in.Class+":rejected-at-parse")
		return
	}
	ch := cs[0]
	pi := describe(ch)
	so.ParsedAs = &pi
	var conn net.Conn
	var cerr error
	pan, site, val := vcommon.Guard(func() { conn, cerr = ch.OpenConnection() })
	d.Form = "start"
	e.rec.Case(key, true)
	if pan {
		so.StartErr = val
		e.viol(fmt.Sprintf("%s:start:%s:panic@%s", in.Pos, in.panicClass(), site), d, so)
		return
	}
	if cerr != nil {
		so.StartErr = firstLine(cerr.Error())
		e.rec.Seen("start_outcomes", in.Pos+":"+in.Class+":open-failed")
		if in.Want == "accept" {
			e.viol(sigT(in, "never-connects"), d, so)
		}
		return
	}
	defer vcommon.Guard(func() {
		if conn != nil {
			conn.Close()
		}
	})
	e.rec.Seen("start_outcomes", in.Pos+":"+in.Class+":opened")
	if nat != nil && nat.Kind == "socks" {
		o := obs{Kind: "socks", Net: "-", Detail: "in-process SOCKS5 pipe"}
		so.Observed = &o
		e.judgeTransport(d, "start", nat, a, o, so, true)
		return
	}
	// the connection must have arrived at the recorder that sits at the documented endpoint
	conn.Write([]byte("ping"))
	select {
	case f := <-rs.rec.C:
		so.Flight = &f
		o := obs{Kind: "socket", Net: f.Net, Detail: "target saw " + f.Raw}
		so.Observed = &o
		e.rec.Seen("observed_transports", in.Pos+":"+o.String())
		e.rec.Stat("start_probed_endpoints", 1)
		good := e.judgeTransportPhase(d, "start", nat, a, o, so, true, "")
		// a channel is opened once per tunnelled connection: the next one has to arrive the same way
		for use := 2; good && use <= 1+e.rec.Pick(1, 2); use++ {
			var conn2 net.Conn
			var cerr2 error
			pan, site, val := vcommon.Guard(func() { conn2, cerr2 = ch.OpenConnection() })
			so2 := *so
			so2.Use, so2.FirstUse, so2.Observed, so2.Flight = use, &o, nil, nil
			e.rec.Case("start-reuse|"+in.key(), true)
			e.rec.Stat("reuse_observations:channel", 1)
			if pan {
				so2.StartErr = val
				e.viol(fmt.Sprintf("%s:start:%s:%spanic@%s", in.Pos, in.panicClass(), phaseReuse, site), d, &so2)
				return
			}
			if cerr2 != nil {
				so2.StartErr = firstLine(cerr2.Error())
				if in.Want == "accept" {
					e.viol(sigT(in, phaseReuse+"never-connects"), d, &so2)
				}
				return
			}
			c2 := conn2
			defer vcommon.Guard(func() {
				if c2 != nil {
					c2.Close()
				}
			})
			conn2.Write([]byte("ping"))
			select {
			case f2 := <-rs.rec.C:
				so2.Flight = &f2
				o2 := obs{Kind: "socket", Net: f2.Net, Detail: "target saw " + f2.Raw}
				so2.Observed = &o2
				e.rec.Seen("observed_transports", in.Pos+":"+phaseReuse+o2.String())
				good = e.judgeTransportPhase(d, "start", nat, a, o2, &so2, true, phaseReuse)
			case <-time.After(watchdog):
				e.rec.Inconclusive("watchdog: channel opened a second connection that did not arrive at the target", d)
				return
			}
		}
	case <-time.After(watchdog):
		e.rec.Inconclusive("watchdog: channel opened a connection that did not arrive at the target", d)
	}
}
