// C18 "pair" monitor: every upstream spelling that unmarshalUpstream accepts for a stream / datagram carrier is
// connected - the real upstream object, made by the real parser from its command-line form - to REAL server
// endpoints of every transport kind of the same socket family (matching and mismatching ones, with and without a
// certificate, with and without mustSecure), through a recording relay owned by the harness. The other monitors
// connect an upstream to a recorder that refuses the session after the first flight: what a Connect that SUCCEEDS
// reports, and what the client does after a transport-level failure, was never seen.
//
// Judged by the reference table (c18_test.go) and by nothing else:
//   - wire: every connection the client opens starts the way its scheme says (TLS record layer from the first byte
//     for +tls / https / wss, the clear-text announce for plain sockets and stdio, a websocket upgrade for http / ws);
//   - a pair whose two schemes do not name the same transport is rejected, never served;
//   - a pair whose two schemes name the same transport connects (unless mustSecure cannot be met);
//   - what both ends report about the session (Secure / SecurityTech of the client connection, the server's
//     server.session event) agrees with each other and with the wire: "underlying" only over an outer TLS layer,
//     "tls" only after a StartTLS handshake seen on the wire, and a session reported secure never carries a marker
//     written by the harness in clear text (the marker is looked for in the bytes the relay saw, websocket frames
//     unmasked); mustSecure is never satisfied by a clear-text wire.
package c18

import (
	"bytes"
	"encoding/binary"
	"fmt"
	"io"
	"net"
	"os"
	"path/filepath"
	"strings"
	"sync"
	"time"

	"github.com/bokysan/socketace/v2/internal/client/upstream"
	"github.com/bokysan/socketace/v2/internal/server"
	"github.com/bokysan/socketace/v2/internal/socketace"
	"github.com/bokysan/socketace/v2/internal/util/cert"
	"github.com/bokysan/socketace/v2/internal/verifhook"
	"github.com/bokysan/socketace/v2/internal/zzverif/vcommon"
)

// ---- work items ------------------------------------------------------------------------------------

type pairFamily struct {
	servers   []string // server address schemes
	upstreams []string // upstream spellings (lower case)
	variants  []string // other spellings of the same upstream schemes
}

var pairFamilies = map[string]pairFamily{
	"tcp": {
		servers:   []string{"tcp", "tcp+tls", "http", "https"},
		upstreams: []string{"tcp", "tcp+tls", "http", "https", "ws", "wss"},
		variants:  []string{"TCP+TLS", "Tcp", "WS", "Wss", "HTTPS", "Http", "tcp+TLS"},
	},
	"unix":  {servers: []string{"unix", "unix+tls"}, upstreams: []string{"unix", "unix+tls"}, variants: []string{"UNIX+TLS"}},
	"stdio": {servers: []string{"stdin", "stdin+tls"}, upstreams: []string{"stdin", "stdin+tls"}, variants: []string{"STDIN+TLS"}},
	"udp":   {servers: []string{"udp"}, upstreams: []string{"udp", "udp4"}},
}

func pairAddr(family, scheme string, r *ref) string {
	switch family {
	case "tcp", "udp":
		a := scheme + "://127.0.0.1:{P}"
		if r != nil && r.Kind == "ws" {
			a += "/ws/all"
		}
		return a
	case "unix":
		return scheme + "://{ABS}/r{N}.sock"
	}
	return scheme + "://"
}

func pairInputs(seed int64, thorough bool) []input {
	var res []input
	for _, fam := range []string{"tcp", "unix", "stdio", "udp"} {
		f := pairFamilies[fam]
		spell := append([]string{}, f.upstreams...)
		spell = append(spell, f.variants...)
		if thorough {
			// more spellings of the same schemes: PRNG case flips (url.Parse folds the case of a scheme)
			rng := vcommon.NewRand(seed, "c18/pair/"+fam)
			for i := 0; i < 6; i++ {
				b := []byte(f.upstreams[rng.Intn(len(f.upstreams))])
				for k := 0; k < 1+rng.Intn(3); k++ {
					j := rng.Intn(len(b))
					if b[j] >= 'a' && b[j] <= 'z' {
						b[j] -= 32
					}
				}
				spell = append(spell, string(b))
			}
		}
		seen := map[string]bool{}
		for _, u := range spell {
			if seen[u] {
				continue
			}
			seen[u] = true
			r := lookup(posUpstream, strings.ToLower(u))
			if r == nil {
				continue
			}
			class := "documented"
			if !r.Doc {
				class = "extension"
			}
			if u != strings.ToLower(u) {
				class = "case-variant"
			}
			for _, s := range f.servers {
				for _, crt := range []bool{false, true} {
					sr := lookup(posServer, s)
					if sr != nil && sr.TLS && !crt {
						continue // a TLS endpoint needs its certificate
					}
					if fam == "stdio" && !r.TLS && sr != nil && sr.TLS {
						// A TLS stdio server that reads a non-TLS first record gives up without a word and without closing its
						// output, and a client on a pipe has no deadline: Connect waits for ever. Nothing is served (so nothing
						// for this property to judge), and the wait would cost the watchdog every time: pair left out.
						continue
					}
					for _, ms := range []bool{false, true} {
						res = append(res, input{Pos: posUpstream, Class: class, Addr: pairAddr(fam, u, r), Name: "ch", Want: "any",
							Peer: s, PeerCert: crt, MustSecure: ms})
					}
				}
			}
		}
	}
	return res
}

func familyOfServer(scheme string) string {
	for fam, f := range pairFamilies {
		for _, s := range f.servers {
			if s == scheme {
				return fam
			}
		}
	}
	return ""
}

// ---- recording relay -------------------------------------------------------------------------------

const wireCap = 1 << 20

type wireConn struct {
	mu       sync.Mutex
	c2s, s2c []byte
	grams    int // datagram relay: datagrams client -> server
}

func (w *wireConn) add(toServer bool, b []byte) {
	w.mu.Lock()
	defer w.mu.Unlock()
	if toServer {
		if len(w.c2s) < wireCap {
			w.c2s = append(w.c2s, b...)
		}
		w.grams++
	} else if len(w.s2c) < wireCap {
		w.s2c = append(w.s2c, b...)
	}
}

func (w *wireConn) snapshot() (c2s, s2c []byte) {
	w.mu.Lock()
	defer w.mu.Unlock()
	return append([]byte{}, w.c2s...), append([]byte{}, w.s2c...)
}

type wireRelay struct {
	mu      sync.Mutex
	conns   []*wireConn
	closers []io.Closer
	Net     string
	Where   string
}

func (r *wireRelay) newConn() *wireConn {
	w := &wireConn{}
	r.mu.Lock()
	r.conns = append(r.conns, w)
	r.mu.Unlock()
	return w
}

func (r *wireRelay) all() []*wireConn {
	r.mu.Lock()
	defer r.mu.Unlock()
	return append([]*wireConn{}, r.conns...)
}

func (r *wireRelay) Close() {
	r.mu.Lock()
	cs := r.closers
	r.closers = nil
	r.mu.Unlock()
	for _, c := range cs {
		c.Close()
	}
}

func (r *wireRelay) keep(c io.Closer) {
	r.mu.Lock()
	r.closers = append(r.closers, c)
	r.mu.Unlock()
}

func pump(w *wireConn, toServer bool, dst io.Writer, src io.Reader, done func()) {
	buf := make([]byte, 32*1024)
	for {
		n, err := src.Read(buf)
		if n > 0 {
			w.add(toServer, buf[:n])
			if _, werr := dst.Write(buf[:n]); werr != nil {
				break
			}
		}
		if err != nil {
			break
		}
	}
	done()
}

// newStreamRelay listens on (network, addr) and forwards every connection to (network, target), recording both directions.
func newStreamRelay(network, addr, target string) (*wireRelay, error) {
	l, err := net.Listen(network, addr)
	if err != nil {
		return nil, err
	}
	r := &wireRelay{Net: network, Where: l.Addr().String()}
	r.keep(l)
	go func() {
		for {
			c, err := l.Accept()
			if err != nil {
				return
			}
			w := r.newConn()
			r.keep(c)
			go func() {
				s, err := net.DialTimeout(network, target, ioWait)
				if err != nil {
					c.Close()
					return
				}
				r.keep(s)
				var once sync.Once
				done := func() { once.Do(func() { c.Close(); s.Close() }) }
				go pump(w, true, s, c, done)
				pump(w, false, c, s, done)
			}()
		}
	}()
	return r, nil
}

// newDatagramRelay: one client, UDP. Datagrams arriving at the relay go to target, answers go back to the client.
func newDatagramRelay(target string) (*wireRelay, error) {
	front, err := net.ListenPacket("udp", "127.0.0.1:0")
	if err != nil {
		return nil, err
	}
	ta, err := net.ResolveUDPAddr("udp", target)
	if err != nil {
		front.Close()
		return nil, err
	}
	back, err := net.DialUDP("udp", nil, ta)
	if err != nil {
		front.Close()
		return nil, err
	}
	r := &wireRelay{Net: "udp", Where: front.LocalAddr().String()}
	r.keep(front)
	r.keep(back)
	w := r.newConn()
	var mu sync.Mutex
	var client net.Addr
	go func() {
		buf := make([]byte, 65536)
		for {
			n, a, err := front.ReadFrom(buf)
			if err != nil {
				return
			}
			mu.Lock()
			client = a
			mu.Unlock()
			w.add(true, buf[:n])
			back.Write(buf[:n])
		}
	}()
	go func() {
		buf := make([]byte, 65536)
		for {
			n, err := back.Read(buf)
			if err != nil {
				if ne, ok := err.(net.Error); ok && !ne.Timeout() && strings.Contains(err.Error(), "refused") {
					continue
				}
				return
			}
			mu.Lock()
			a := client
			mu.Unlock()
			w.add(false, buf[:n])
			if a != nil {
				front.WriteTo(buf[:n], a)
			}
		}
	}()
	return r, nil
}

// ---- reading the wire ------------------------------------------------------------------------------

// wsPayload: concatenated payloads of the complete data frames in b (RFC 6455), unmasked where masked.
func wsPayload(b []byte) []byte {
	var out []byte
	for len(b) >= 2 {
		op, masked, n, off := b[0]&0x0f, b[1]&0x80 != 0, int(b[1]&0x7f), 2
		switch n {
		case 126:
			if len(b) < 4 {
				return out
			}
			n, off = int(binary.BigEndian.Uint16(b[2:4])), 4
		case 127:
			if len(b) < 10 {
				return out
			}
			n, off = int(binary.BigEndian.Uint64(b[2:10])), 10
		}
		var key []byte
		if masked {
			if len(b) < off+4 {
				return out
			}
			key, off = b[off:off+4], off+4
		}
		if n < 0 || len(b) < off+n {
			return out
		}
		if op <= 2 {
			p := append([]byte{}, b[off:off+n]...)
			for i := range p {
				if masked {
					p[i] ^= key[i%4]
				}
			}
			out = append(out, p...)
		}
		b = b[off+n:]
	}
	return out
}

// wireFacts: what the bytes of one connection (client -> server direction) show.
type wireFacts struct {
	Start        string `json:"client_starts_with"` // tls | announce | ws-upgrade | other | nothing
	StartTLSAsk  bool   `json:"starttls_requested_in_clear,omitempty"`
	StartTLSSeen bool   `json:"tls_handshake_after_upgrade_seen,omitempty"`
	Bytes        int    `json:"bytes_client_to_server"`
	Head         string `json:"first_bytes,omitempty"`
	Answer       string `json:"first_bytes_of_the_answer,omitempty"`
}

// innerStream: the byte stream the socketace negotiation runs on, as far as the relay can see it.
func innerStream(raw []byte, datagram bool) (start string, inner []byte) {
	switch k := classifyBytes(raw); {
	case datagram:
		if len(raw) == 0 {
			return "nothing", nil
		}
		return "datagram", raw
	case k == "tls-clienthello":
		return "tls", nil
	case k == "announce":
		return "announce", raw
	case k == "ws-upgrade":
		if i := bytes.Index(raw, []byte("\r\n\r\n")); i >= 0 {
			return "ws-upgrade", wsPayload(raw[i+4:])
		}
		return "ws-upgrade", nil
	case k == "eof":
		return "nothing", nil
	case bytes.HasPrefix(raw, []byte("GET ")) && !bytes.Contains(raw, []byte("\r\n\r\n")):
		return "ws-upgrade", nil // header not complete yet
	}
	return "other", raw
}

func factsOf(w *wireConn, datagram bool) wireFacts {
	c2s, s2c := w.snapshot()
	start, inner := innerStream(c2s, datagram)
	f := wireFacts{Start: start, Bytes: len(c2s), Head: clipS(c2s, 40), Answer: clipS(s2c, 40)}
	if datagram {
		f.StartTLSAsk = bytes.Contains(bytes.ToLower(inner), []byte("security: starttls"))
		return f
	}
	// announce request, then the upgrade request; what follows the upgrade request is either the session or a TLS handshake
	if i := bytes.Index(inner, []byte("\r\n\r\n")); i >= 0 {
		rest := inner[i+4:]
		if j := bytes.Index(rest, []byte("\r\n\r\n")); j >= 0 {
			f.StartTLSAsk = bytes.Contains(bytes.ToLower(rest[:j]), []byte("security: starttls"))
			after := rest[j+4:]
			f.StartTLSSeen = len(after) >= 3 && after[0] == 0x16 && after[1] == 0x03
		}
	}
	return f
}

// ---- the case -----------------------------------------------------------------------------------------

type pairObs struct {
	Upstream     string      `json:"upstream_address"`
	UpstreamRef  *ref        `json:"upstream_reference"`
	Server       string      `json:"server_address"`
	ServerRef    *ref        `json:"server_reference"`
	ServerCert   bool        `json:"server_has_certificate"`
	MustSecure   bool        `json:"must_secure"`
	Matching     bool        `json:"schemes_name_the_same_transport"`
	Result       string      `json:"connect_result"`
	ClientSecure interface{} `json:"client_reports_secure,omitempty"`
	ClientTech   string      `json:"client_reports_security,omitempty"`
	ClientString string      `json:"client_connection,omitempty"`
	ServerSecure interface{} `json:"server_reports_secure,omitempty"`
	ServerTech   string      `json:"server_reports_security,omitempty"`
	Wire         []wireFacts `json:"wire_connections"`
	MarkerClear  interface{} `json:"marker_seen_in_clear_on_the_wire,omitempty"`
	Note         string      `json:"note,omitempty"`
}

func clientConnOf(c interface{}) *socketace.ClientConnection {
	for i := 0; i < 12 && c != nil; i++ {
		if cc, ok := c.(*socketace.ClientConnection); ok {
			return cc
		}
		u, ok := c.(interface{ Unwrap() net.Conn })
		if !ok {
			return nil
		}
		c = u.Unwrap()
	}
	return nil
}

func upstreamConn(u upstream.Upstream) interface{} {
	switch x := u.(type) {
	case *upstream.Socket:
		return x.Connection
	case *upstream.Http:
		return x.Connection
	case *upstream.InputOutput:
		return x.Connection
	case *upstream.Packet:
		return x.Connection
	}
	return nil
}

const pairMarker = "VERIF-C18-PAIR-MARKER-0123456789-abcdefghijklmnopqrstuvwxyz-VERIF"

func sigP(u, s *ref, kind string) string {
	return fmt.Sprintf("upstream:pair:%s->%s:%s", u.Scheme, s.Scheme, kind)
}

func (e *env) pairCase(d caseDesc) {
	in := d.In
	d.Form = "pair"
	key := "pair|" + in.key()
	fam := familyOfServer(in.Peer)
	sref := lookup(posServer, in.Peer)
	uref := naturalRef(posUpstream, in.Addr)
	if fam == "" || sref == nil || uref == nil {
		e.rec.Inconclusive("pair: no reference for "+in.Addr+" / "+in.Peer, d)
		return
	}
	matching := uref.Kind == sref.Kind && uref.TLS == sref.TLS
	po := &pairObs{UpstreamRef: uref, ServerRef: sref, ServerCert: in.PeerCert, MustSecure: in.MustSecure, Matching: matching}

	// ---- the real server
	var srv server.Server
	var relay *wireRelay
	var stdio []*os.File
	defer func() {
		for _, f := range stdio {
			f.Close()
		}
	}()
	uaddr := ""
	for attempt := 0; attempt < 4 && srv == nil; attempt++ {
		uniq := d.N*100 + attempt
		sa := ""
		switch fam {
		case "tcp", "udp":
			sa = fmt.Sprintf("%s://127.0.0.1:%d", in.Peer, freePort())
		case "unix":
			sa = fmt.Sprintf("%s://%s/s%d.sock", in.Peer, e.tmp, uniq)
		case "stdio":
			sa = in.Peer + "://"
		}
		po.Server = sa
		var ss server.Servers
		txt := jsonOf(e.buildList(input{Pos: posServer, NoCert: !in.PeerCert}, sa))
		pr := guarded(func() ([]pitem, error) { return nil, ss.UnmarshalJSON([]byte(txt)) })
		if !pr.accepted() || len(ss) != 1 {
			e.rec.Inconclusive("pair: the server side was not accepted: "+pr.Err+pr.Panic, d)
			return
		}
		s := ss[0]
		if ios, ok := s.(*server.IoServer); ok {
			sr, sw, _ := os.Pipe() // relay -> server
			or, ow, _ := os.Pipe() // server -> relay
			cr, cw, _ := os.Pipe() // relay -> client
			ur, uw, _ := os.Pipe() // client -> relay
			stdio = append(stdio, sr, sw, or, ow, cr, cw, ur, uw)
			ios.Input, ios.Output = sr, ow
			relay = &wireRelay{Net: "stdio", Where: "pipes"}
			w := relay.newConn()
			var once sync.Once
			done := func() { once.Do(func() { sw.Close(); cw.Close() }) }
			go pump(w, true, sw, ur, done)
			go pump(w, false, cw, or, done)
		}
		var serr error
		pan, site, val := vcommon.Guard(func() { serr = s.Startup(server.Channels{}) })
		if pan {
			e.rec.Inconclusive("pair: server start-up panicked at "+site+": "+val, d)
			return
		}
		if serr != nil {
			if isAddrInUse(serr.Error()) {
				continue
			}
			e.rec.Inconclusive("pair: the server did not start: "+firstLine(serr.Error()), d)
			return
		}
		srv = s
		defer vcommon.Guard(func() { s.Shutdown() })
		// ---- the relay and the upstream address that points at it
		var err error
		switch fam {
		case "tcp":
			relay, err = newStreamRelay("tcp", "127.0.0.1:0", strings.SplitN(sa, "://", 2)[1])
			if err == nil {
				_, p, _ := net.SplitHostPort(relay.Where)
				uaddr = strings.Replace(in.Addr, "{P}", p, -1)
			}
		case "unix":
			rp := filepath.Join(e.tmp, fmt.Sprintf("r%d.sock", uniq))
			relay, err = newStreamRelay("unix", rp, strings.SplitN(sa, "://", 2)[1])
			uaddr = resolve(in.Addr, 0, 0, e.tmp, uniq)
		case "udp":
			relay, err = newDatagramRelay(strings.SplitN(sa, "://", 2)[1])
			if err == nil {
				_, p, _ := net.SplitHostPort(relay.Where)
				uaddr = strings.Replace(in.Addr, "{P}", p, -1)
			}
		case "stdio":
			uaddr = in.Addr
		}
		if err != nil {
			e.rec.Inconclusive("pair: relay: "+err.Error(), d)
			return
		}
		defer relay.Close()
	}
	if srv == nil {
		e.rec.Inconclusive("pair: no free port after 4 attempts", d)
		return
	}
	po.Upstream = uaddr

	// ---- the real upstream object, from its command-line form
	var ups upstream.Upstreams
	pr := guarded(func() ([]pitem, error) { return nil, ups.UnmarshalFlag(uaddr) })
	if !pr.accepted() || len(ups.Data) != 1 {
		e.rec.Case(key, true)
		e.rec.Seen("pair_outcomes", uref.Scheme+"->"+sref.Scheme+":upstream-rejected-at-parse")
		return // what the parser accepts is the parse monitor's business
	}
	u := ups.Data[0]
	if io_, ok := u.(*upstream.InputOutput); ok {
		io_.Input, io_.Output = stdio[4], stdio[7] // cr, uw
	}
	verifhook.Events()
	verifhook.Record(true)
	defer verifhook.Record(false)
	done := make(chan string, 1)
	go func() {
		var cerr error
		pan, site, val := vcommon.Guard(func() { cerr = u.Connect(&cert.ClientConfig{InsecureSkipVerify: true}, in.MustSecure) })
		switch {
		case pan:
			done <- "panic@" + site + ": " + val
		case cerr != nil:
			done <- "error: " + firstLine(cerr.Error())
		default:
			done <- "connected"
		}
	}()
	select {
	case po.Result = <-done:
	case <-time.After(3 * watchdog):
		e.rec.Inconclusive("watchdog: Connect neither succeeded nor failed", d)
		return
	}
	e.rec.Case(key, true)
	e.rec.Stat("pair_connects", 1)
	if strings.HasPrefix(po.Result, "panic@") {
		e.viol(fmt.Sprintf("upstream:pair:%s:%s", in.panicClass(), strings.SplitN(po.Result, ": ", 2)[0]), d, po)
		return
	}
	connected := po.Result == "connected"
	defer vcommon.Guard(func() {
		if c, ok := upstreamConn(u).(io.Closer); ok && c != nil && connected {
			c.Close()
		}
	})
	datagram := fam == "udp"

	// ---- what both ends report
	var cc *socketace.ClientConnection
	if connected {
		cc = clientConnOf(upstreamConn(u))
		if cc == nil {
			e.rec.Inconclusive("pair: connected, but the client connection cannot be found inside the upstream object", d)
			return
		}
		po.ClientSecure, po.ClientTech, po.ClientString = cc.Secure(), cc.SecurityTech(), fmt.Sprint(u.(fmt.Stringer))
		// the server reports its session when its side of the negotiation is through
		t0 := time.Now()
		for po.ServerTech == "" {
			for _, ev := range verifhook.Events() {
				if ev.Kind == "server.session" && len(ev.KV) == 2 {
					po.ServerSecure, po.ServerTech = ev.KV[0], fmt.Sprint(ev.KV[1])
				}
			}
			if po.ServerTech != "" {
				break
			}
			if time.Since(t0) > watchdog {
				e.rec.Inconclusive("watchdog: the client is connected but the server reported no session", d)
				return
			}
			time.Sleep(5 * time.Millisecond)
		}
		// a marker through the established connection: is it readable on the wire?
		ws := relay.all()
		last := ws[len(ws)-1]
		before, _ := last.snapshot()
		var werr error
		vcommon.Guard(func() { _, werr = upstreamConn(u).(io.Writer).Write([]byte(pairMarker)) })
		if werr != nil {
			po.Note = "marker could not be written: " + werr.Error()
		} else {
			t0 = time.Now()
			for {
				now, _ := last.snapshot()
				hay := now
				if st, inner := innerStream(now, datagram); st == "ws-upgrade" {
					hay = inner // websocket frames from the client are masked: look at the payload
				}
				if bytes.Contains(hay, []byte(pairMarker)) {
					po.MarkerClear = true
					break
				}
				// Written in clear the marker travels as it is (plus at most 14 bytes of websocket frame header, and then the
				// search above finds it as soon as the frame is complete); a TLS record adds 22 bytes or more. So once the
				// wire has grown by the marker and more than a frame header, everything is there and it is not readable.
				if len(now) >= len(before)+len(pairMarker)+14+1 {
					po.MarkerClear = false
					break
				}
				if time.Since(t0) > watchdog {
					po.Note = "the marker's bytes did not pass the relay within the watchdog"
					break
				}
				time.Sleep(5 * time.Millisecond)
			}
		}
	}
	if !connected && in.MustSecure && strings.Contains(po.Result, "Could not establish a secure connection") {
		// Refused by the client AFTER a complete negotiation: the server has a session and reports it, perhaps a moment
		// later. That report belongs to this case; it is waited for here so that it cannot be taken for the next case's.
		for t0 := time.Now(); time.Since(t0) < watchdog; time.Sleep(5 * time.Millisecond) {
			got := false
			for _, ev := range verifhook.Events() {
				got = got || ev.Kind == "server.session"
			}
			if got {
				break
			}
		}
	}
	for _, w := range relay.all() {
		po.Wire = append(po.Wire, factsOf(w, datagram))
	}
	outcome := "rejected"
	if connected {
		outcome = fmt.Sprintf("connected(client=%v/%s,server=%v/%s,marker-clear=%v)", po.ClientSecure, po.ClientTech, po.ServerSecure, po.ServerTech, po.MarkerClear)
	}
	e.rec.Seen("pair_outcomes", fmt.Sprintf("%s->%s cert=%v mustSecure=%v: %s", uref.Scheme, sref.Scheme, in.PeerCert, in.MustSecure, outcome))
	for _, f := range po.Wire {
		e.rec.Seen("pair_wire", fmt.Sprintf("%s: %s starttls-asked=%v starttls-seen=%v", uref.Scheme, f.Start, f.StartTLSAsk, f.StartTLSSeen))
	}

	// ---- judgement
	// 1. the wire: every connection the client opened starts the way the scheme says
	wireBad := false
	for _, f := range po.Wire {
		if f.Start == "nothing" {
			continue
		}
		want := map[string]string{"socket": "announce", "stdio": "announce", "ws": "ws-upgrade", "packet": "datagram"}[uref.Kind]
		if uref.TLS {
			want = "tls"
		}
		switch {
		case f.Start == want:
		case uref.TLS:
			e.viol(sigP(uref, sref, "unencrypted"), d, po)
			wireBad = true
		case f.Start == "tls":
			e.viol(sigP(uref, sref, "unexpectedly-encrypted"), d, po)
			wireBad = true
		default:
			e.viol(sigP(uref, sref, "wrong-transport"), d, po)
			wireBad = true
		}
		if wireBad {
			break
		}
	}
	if !connected {
		// 2. a matching pair has to work, unless the caller's demand for security cannot be met
		canBeSecure := uref.TLS || (in.PeerCert && uref.Kind != "")
		if matching && !wireBad && (!in.MustSecure || canBeSecure) {
			e.viol(sigP(uref, sref, "matching-pair-rejected"), d, po)
		}
		return
	}
	// 3. a mismatching pair is never served
	if !matching && !wireBad {
		e.viol(sigP(uref, sref, "mismatch-served"), d, po)
	}
	// 4. the two ends agree with each other
	if fmt.Sprint(po.ClientSecure) != fmt.Sprint(po.ServerSecure) || po.ClientTech != po.ServerTech {
		e.viol(sigP(uref, sref, "ends-disagree-on-security"), d, po)
	}
	// 5. ... and with the wire
	session := po.Wire[len(po.Wire)-1]
	secure := cc.Secure()
	switch {
	case po.ClientTech == socketace.SecurityUnderlying && session.Start != "tls" && !datagram:
		e.viol(sigP(uref, sref, "security-underlying-without-outer-tls"), d, po)
	case po.ClientTech == socketace.SecurityTls && session.Start != "tls" && !datagram && !session.StartTLSSeen:
		e.viol(sigP(uref, sref, "security-tls-without-starttls-on-the-wire"), d, po)
	case po.ClientTech == socketace.SecurityNone && (session.Start == "tls" || session.StartTLSSeen):
		e.viol(sigP(uref, sref, "security-none-on-encrypted-wire"), d, po)
	case secure != (po.ClientTech != socketace.SecurityNone):
		e.viol(sigP(uref, sref, "secure-flag-contradicts-security-attribute"), d, po)
	}
	if clear, ok := po.MarkerClear.(bool); ok {
		e.rec.Stat("pair_marker_observations", 1)
		switch {
		case clear && secure:
			e.viol(sigP(uref, sref, "reported-secure-cleartext-on-the-wire"), d, po)
		case clear && in.MustSecure:
			e.viol(sigP(uref, sref, "must-secure-served-in-cleartext"), d, po)
		case !clear && !secure:
			e.viol(sigP(uref, sref, "reported-insecure-unreadable-on-the-wire"), d, po)
		}
	} else if po.Note != "" {
		e.rec.Inconclusive("pair: "+po.Note, d)
	}
}
