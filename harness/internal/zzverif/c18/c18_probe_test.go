// C18 transport classifier: active probes against a listening endpoint, passive recorders for what
// a client emits first, and the /proc view of the sockets a child process owns.
package c18

import (
	"bufio"
	"bytes"
	"crypto/ecdsa"
	"crypto/elliptic"
	"crypto/rand"
	"crypto/tls"
	"crypto/x509"
	"crypto/x509/pkix"
	"encoding/hex"
	"encoding/pem"
	"fmt"
	"io"
	"io/ioutil"
	"math/big"
	"net"
	"net/http"
	"os"
	"path/filepath"
	"strconv"
	"strings"
	"sync"
	"time"

	sadns "github.com/bokysan/socketace/v2/internal/streams/dns"
	"github.com/bokysan/socketace/v2/internal/streams/dns/commands"
	dnsutil "github.com/bokysan/socketace/v2/internal/streams/dns/util"
	"github.com/bokysan/socketace/v2/internal/util/enc"
	"github.com/gorilla/websocket"
	mdns "github.com/miekg/dns"
	"github.com/xtaci/kcp-go/v5"
)

const announce = "X-SOCKETACE / HTTP/1.1\r\nAccepts-Protocol-Version: v2.0.0\r\nUser-Agent: verif-c18\r\n\r\n"
const refusal = "HTTP/1.1 400 Bad Request\r\nServer: verif-c18-recorder\r\nMessage: recorded\r\n\r\n"

// ioWait bounds a single network read/write of a probe. It never decides a verdict: a probe that
// runs into it simply reports "no answer", and a case without a positive observation is inconclusive.
const ioWait = 4 * time.Second

// obs is what the classifier saw: Kind in {socket, ws, packet, dns, stdio} (+Net, +TLS), or "" when
// nothing identified itself.
type obs struct {
	Kind   string `json:"kind"`
	Net    string `json:"net,omitempty"`
	TLS    bool   `json:"tls"`
	Detail string `json:"detail,omitempty"`
}

func (o obs) String() string {
	if o.Kind == "" {
		return "unidentified(" + o.Detail + ")"
	}
	s := o.Kind + "/" + o.Net
	if o.TLS {
		s += "+tls"
	}
	return s
}

func clipS(b []byte, n int) string {
	if len(b) > n {
		b = b[:n]
	}
	for _, c := range b {
		if (c < 0x20 && c != '\r' && c != '\n') || c > 0x7e {
			return "hex:" + hex.EncodeToString(b)
		}
	}
	return string(b)
}

// ---- certificates ---------------------------------------------------------------------------

type certFiles struct {
	CertFile, KeyFile string
	Config            *tls.Config
}

func makeCert(dir string) (*certFiles, error) {
	key, err := ecdsa.GenerateKey(elliptic.P256(), rand.Reader)
	if err != nil {
		return nil, err
	}
	tpl := &x509.Certificate{
		SerialNumber: big.NewInt(18), Subject: pkix.Name{CommonName: "verif-c18"},
		NotBefore: time.Now().Add(-time.Hour), NotAfter: time.Now().Add(48 * time.Hour),
		KeyUsage: x509.KeyUsageDigitalSignature | x509.KeyUsageCertSign, ExtKeyUsage: []x509.ExtKeyUsage{x509.ExtKeyUsageServerAuth},
		IsCA: true, BasicConstraintsValid: true,
		DNSNames: []string{"localhost"}, IPAddresses: []net.IP{net.ParseIP("127.0.0.1")},
	}
	der, err := x509.CreateCertificate(rand.Reader, tpl, tpl, &key.PublicKey, key)
	if err != nil {
		return nil, err
	}
	kb, err := x509.MarshalPKCS8PrivateKey(key)
	if err != nil {
		return nil, err
	}
	cp := pem.EncodeToMemory(&pem.Block{Type: "CERTIFICATE", Bytes: der})
	kp := pem.EncodeToMemory(&pem.Block{Type: "PRIVATE KEY", Bytes: kb})
	c := &certFiles{CertFile: filepath.Join(dir, "verif-cert.pem"), KeyFile: filepath.Join(dir, "verif-key.pem")}
	if err := ioutil.WriteFile(c.CertFile, cp, 0600); err != nil {
		return nil, err
	}
	if err := ioutil.WriteFile(c.KeyFile, kp, 0600); err != nil {
		return nil, err
	}
	pair, err := tls.X509KeyPair(cp, kp)
	if err != nil {
		return nil, err
	}
	c.Config = &tls.Config{Certificates: []tls.Certificate{pair}}
	return c, nil
}

// ---- active probes: stream endpoints ---------------------------------------------------------

func readHead(c net.Conn) []byte {
	c.SetReadDeadline(time.Now().Add(ioWait))
	var buf []byte
	tmp := make([]byte, 2048)
	for len(buf) < 8192 {
		n, err := c.Read(tmp)
		buf = append(buf, tmp[:n]...)
		if bytes.Contains(buf, []byte("\r\n\r\n")) || err != nil {
			break
		}
		if len(buf) > 0 && buf[0] == 0x15 { // TLS alert record
			break
		}
	}
	return buf
}

func isAce200(b []byte) bool {
	return bytes.HasPrefix(b, []byte("HTTP/1.1 200")) && bytes.Contains(bytes.ToLower(b), []byte("protocol-version"))
}

// probeAnnounce: does the endpoint answer the plaintext socketace announce (over c)?
func probeAnnounceOn(c net.Conn) (bool, []byte) {
	c.SetWriteDeadline(time.Now().Add(ioWait))
	if _, err := c.Write([]byte(announce)); err != nil {
		return false, []byte("write: " + err.Error())
	}
	h := readHead(c)
	return isAce200(h), h
}

func dialStream(network, addr string) (net.Conn, error) {
	return net.DialTimeout(network, addr, ioWait)
}

func probePlainSocket(network, addr string) (bool, string) {
	c, err := dialStream(network, addr)
	if err != nil {
		return false, "dial: " + err.Error()
	}
	defer c.Close()
	ok, h := probeAnnounceOn(c)
	return ok, clipS(h, 120)
}

func probeTLSSocket(network, addr string) (handshake bool, ace bool, detail string) {
	c, err := dialStream(network, addr)
	if err != nil {
		return false, false, "dial: " + err.Error()
	}
	defer c.Close()
	tc := tls.Client(c, &tls.Config{InsecureSkipVerify: true})
	c.SetDeadline(time.Now().Add(ioWait))
	if err := tc.Handshake(); err != nil {
		return false, false, "tls: " + err.Error()
	}
	ok, h := probeAnnounceOn(tc)
	return true, ok, clipS(h, 120)
}

func probeWS(addr, path string, useTLS bool) (bool, string) {
	d := &websocket.Dialer{HandshakeTimeout: ioWait, TLSClientConfig: &tls.Config{InsecureSkipVerify: true}}
	scheme := "ws"
	if useTLS {
		scheme = "wss"
	}
	c, resp, err := d.Dial(scheme+"://"+addr+path, nil)
	if err != nil {
		st := ""
		if resp != nil {
			st = " status=" + resp.Status
		}
		return false, "ws: " + err.Error() + st
	}
	defer c.Close()
	// inside the websocket a socketace server answers the announce
	c.SetWriteDeadline(time.Now().Add(ioWait))
	c.WriteMessage(websocket.BinaryMessage, []byte(announce))
	c.SetReadDeadline(time.Now().Add(ioWait))
	_, msg, _ := c.ReadMessage()
	return true, "101 inner=" + clipS(msg, 40)
}

// classifyStream identifies what listens on a stream endpoint. expected (may be nil) is tried first;
// the rest of the battery only runs when the expectation is not met.
func classifyStream(network, addr, wsPath string, want *ref) obs {
	type pr struct {
		name string
		run  func() (bool, string)
	}
	var notes []string
	found := obs{}
	plainSock := pr{"plain-announce", func() (bool, string) { return probePlainSocket(network, addr) }}
	tlsSock := pr{"tls-announce", func() (bool, string) {
		hs, ace, d := probeTLSSocket(network, addr)
		if hs && !ace {
			d = "tls-handshake-ok-but " + d
		}
		return ace, d
	}}
	wsPlain := pr{"ws-plain", func() (bool, string) { return probeWS(addr, wsPath, false) }}
	wsTLS := pr{"ws-tls", func() (bool, string) { return probeWS(addr, wsPath, true) }}
	order := []pr{plainSock, tlsSock}
	if network == "tcp" {
		order = []pr{plainSock, tlsSock, wsPlain, wsTLS}
	}
	if want != nil {
		var first pr
		switch {
		case want.Kind == "ws" && want.TLS:
			first = wsTLS
		case want.Kind == "ws":
			first = wsPlain
		case want.TLS:
			first = tlsSock
		default:
			first = plainSock
		}
		rest := []pr{first}
		for _, p := range order {
			if p.name != first.name {
				rest = append(rest, p)
			}
		}
		order = rest
	}
	for _, p := range order {
		ok, d := p.run()
		notes = append(notes, p.name+": "+d)
		if ok {
			switch p.name {
			case "plain-announce":
				found = obs{Kind: "socket", Net: network}
			case "tls-announce":
				found = obs{Kind: "socket", Net: network, TLS: true}
			case "ws-plain":
				found = obs{Kind: "ws", Net: network}
			case "ws-tls":
				found = obs{Kind: "ws", Net: network, TLS: true}
			}
			break
		}
	}
	found.Detail = strings.Join(notes, " | ")
	return found
}

// ---- active probes: datagram endpoints ---------------------------------------------------------

// probeKCP opens a KCP session (10 data / 3 parity shards, no cipher: what socketace uses) over local
// to remote and sends the announce.
func probeKCP(network, addr, tmpdir string) (bool, string) {
	var local net.PacketConn
	var raddr net.Addr
	var err error
	switch network {
	case "udp":
		raddr, err = net.ResolveUDPAddr("udp", addr)
		if err == nil {
			la := "127.0.0.1:0"
			if u := raddr.(*net.UDPAddr); u.IP.To4() == nil {
				la = "[::1]:0"
			}
			local, err = net.ListenPacket("udp", la)
		}
	case "unixgram":
		raddr = &net.UnixAddr{Net: "unixgram", Name: addr}
		lp := filepath.Join(tmpdir, fmt.Sprintf("kp%d.sock", time.Now().UnixNano()%1e9))
		local, err = net.ListenPacket("unixgram", lp)
		defer os.Remove(lp)
	default:
		return false, "unsupported " + network
	}
	if err != nil {
		return false, "local: " + err.Error()
	}
	defer local.Close()
	s, err := kcp.NewConn2(raddr, nil, 10, 3, local)
	if err != nil {
		return false, "kcp: " + err.Error()
	}
	defer s.Close()
	ok, h := probeAnnounceOn(s)
	return ok, clipS(h, 120)
}

func versionQuery(domain string) (*mdns.Msg, error) {
	ser := commands.Serializer{
		Domain:     domain,
		Upstream:   dnsutil.UpstreamConfig{FragmentSize: sadns.DefaultUpstreamMtuSize, QueryType: &dnsutil.QueryTypeCname, Encoder: enc.Base32Encoding},
		Downstream: dnsutil.DownstreamConfig{FragmentSize: 1534, Encoder: enc.Base32Encoding},
	}
	return ser.EncodeDnsRequest(&commands.VersionRequest{ClientVersion: sadns.ProtocolVersion})
}

// probeDNS sends the socketace-over-DNS version query (built by the real serializer). Any DNS
// response identifies a DNS server; a non-REFUSED one the socketace handler.
func probeDNS(net_, addr, domain string) (bool, string) {
	q, err := versionQuery(domain)
	if err != nil {
		return false, "encode: " + err.Error()
	}
	c := &mdns.Client{Net: net_, Timeout: ioWait, TLSConfig: &tls.Config{InsecureSkipVerify: true}}
	last := ""
	for try := 0; try < 4; try++ {
		q.Id = mdns.Id()
		r, _, err := c.Exchange(q, addr)
		if err != nil {
			return false, "exchange: " + err.Error()
		}
		last = fmt.Sprintf("rcode=%s answers=%d", mdns.RcodeToString[r.Rcode], len(r.Answer))
		if r.Rcode != mdns.RcodeRefused {
			return true, last
		}
		// miekg answers REFUSED until socketace has registered its handler (it does so one second
		// after binding); still a DNS server. Ask again a few times to see the real handler.
		time.Sleep(400 * time.Millisecond)
	}
	return true, last
}

// ---- passive recorders -------------------------------------------------------------------------

// flight is the first thing a client sent to a recorder.
type flight struct {
	Outer string `json:"outer"` // tls-clienthello | announce | ws-upgrade | datagram | dns-query | other | eof
	Inner string `json:"inner,omitempty"`
	Net   string `json:"net"`
	Raw   string `json:"raw,omitempty"`
}

func (f flight) asObs() obs {
	o := obs{Net: f.Net, Detail: f.Outer + "/" + f.Inner + " " + f.Raw}
	what := f.Outer
	if f.Outer == "tls-clienthello" {
		o.TLS = true
		what = f.Inner
	}
	switch what {
	case "announce":
		o.Kind = "socket"
	case "ws-upgrade":
		o.Kind = "ws"
	case "kcp-announce":
		o.Kind = "packet"
	case "dns-query":
		o.Kind = "dns"
	case "":
		if o.TLS {
			o.Kind = "tls-unknown-inner"
		}
	}
	return o
}

func classifyBytes(b []byte) string {
	switch {
	case len(b) >= 3 && b[0] == 0x16 && b[1] == 0x03:
		return "tls-clienthello"
	case bytes.HasPrefix(b, []byte("X-SOCKETACE ")):
		return "announce"
	case bytes.HasPrefix(b, []byte("GET ")) && bytes.Contains(bytes.ToLower(b), []byte("upgrade: websocket")):
		return "ws-upgrade"
	case len(b) == 0:
		return "eof"
	}
	return "other"
}

type prefixConn struct {
	net.Conn
	r io.Reader
}

func (p *prefixConn) Read(b []byte) (int, error) { return p.r.Read(b) }

type recorder struct {
	C       chan flight
	closers []io.Closer
	mu      sync.Mutex
	conns   int
}

func (r *recorder) Close() {
	for _, c := range r.closers {
		c.Close()
	}
}

func (r *recorder) Conns() int {
	r.mu.Lock()
	defer r.mu.Unlock()
	return r.conns
}

func readFirst(c net.Conn) []byte {
	c.SetReadDeadline(time.Now().Add(ioWait))
	var buf []byte
	tmp := make([]byte, 4096)
	for len(buf) < 16384 {
		n, err := c.Read(tmp)
		buf = append(buf, tmp[:n]...)
		if err != nil {
			break
		}
		if len(buf) >= 3 && buf[0] == 0x16 {
			break
		}
		if bytes.Contains(buf, []byte("\r\n\r\n")) {
			break
		}
		// only an unfinished text header is worth waiting for
		if !bytes.HasPrefix(buf, []byte("X-SOCKETACE")) && !bytes.HasPrefix(buf, []byte("GET ")) {
			break
		}
	}
	return buf
}

// handleStream records the first flight on an accepted stream connection, completes a TLS handshake
// with the harness certificate if the client starts one, and refuses the session so that the client
// gives up by itself.
func (r *recorder) handleStream(c net.Conn, network string, crt *certFiles, hold bool) {
	defer c.Close()
	// The flight is always published BEFORE the peer is answered or hung up on: whatever the peer does
	// in reaction (give up, close its local connection, return from Connect) therefore happens after
	// the flight is in the channel, and "gave up without a flight" is a fact, not a race.
	publish := func(f flight) {
		select {
		case r.C <- f:
		default:
		}
	}
	first := readFirst(c)
	f := flight{Outer: classifyBytes(first), Net: network, Raw: clipS(first, 48)}
	if f.Outer == "tls-clienthello" && crt != nil {
		pc := &prefixConn{Conn: c, r: io.MultiReader(bytes.NewReader(first), c)}
		tc := tls.Server(pc, crt.Config)
		c.SetDeadline(time.Now().Add(ioWait))
		if err := tc.Handshake(); err == nil {
			inner := readFirst(tc)
			f.Inner = classifyBytes(inner)
			f.Raw = clipS(inner, 48)
			publish(f)
			tc.SetWriteDeadline(time.Now().Add(ioWait))
			tc.Write([]byte(refusal))
		} else {
			f.Inner = "handshake-failed: " + err.Error()
			publish(f)
		}
	} else {
		publish(f)
		if f.Outer != "eof" {
			c.SetWriteDeadline(time.Now().Add(ioWait))
			c.Write([]byte(refusal))
		}
	}
	if hold {
		// keep the connection open until the recorder is closed (used for plain data targets)
		c.SetReadDeadline(time.Time{})
		io.Copy(ioutil.Discard, c)
	}
}

func newStreamRecorder(network, addr string, crt *certFiles) (*recorder, net.Listener, error) {
	l, err := net.Listen(network, addr)
	if err != nil {
		return nil, nil, err
	}
	r := &recorder{C: make(chan flight, 16)}
	r.closers = append(r.closers, l)
	go func() {
		for {
			c, err := l.Accept()
			if err != nil {
				return
			}
			r.mu.Lock()
			r.conns++
			r.mu.Unlock()
			go r.handleStream(c, network, crt, false)
		}
	}()
	return r, l, nil
}

// newKCPRecorder: a KCP listener (no cipher, 10/3 shards) on a datagram socket; records the first
// bytes of the first session and refuses it. A raw datagram that never becomes a session is reported
// by the tap as "datagram".
func newKCPRecorder(network, addr string) (*recorder, net.PacketConn, error) {
	pc, err := net.ListenPacket(network, addr)
	if err != nil {
		return nil, nil, err
	}
	tap := &tapPacketConn{PacketConn: pc, seen: make(chan int, 1)}
	l, err := kcp.ServeConn(nil, 10, 3, tap)
	if err != nil {
		pc.Close()
		return nil, nil, err
	}
	r := &recorder{C: make(chan flight, 16)}
	r.closers = append(r.closers, l, pc)
	go func() {
		for {
			c, err := l.Accept()
			if err != nil {
				return
			}
			r.mu.Lock()
			r.conns++
			r.mu.Unlock()
			go func(c net.Conn) {
				first := readFirst(c)
				f := flight{Outer: "datagram", Inner: classifyBytes(first), Net: network, Raw: clipS(first, 48)}
				if f.Inner == "announce" {
					f.Outer = "kcp-announce"
				}
				select {
				case r.C <- f:
				default:
				}
				c.SetWriteDeadline(time.Now().Add(ioWait))
				c.Write([]byte(refusal))
				time.Sleep(300 * time.Millisecond) // let KCP flush the refusal
				c.Close()
			}(c)
		}
	}()
	return r, pc, nil
}

type tapPacketConn struct {
	net.PacketConn
	seen chan int
}

func (t *tapPacketConn) ReadFrom(b []byte) (int, net.Addr, error) {
	n, a, err := t.PacketConn.ReadFrom(b)
	if err == nil {
		select {
		case t.seen <- n:
		default:
		}
	}
	return n, a, err
}

// newDNSRecorder listens on UDP and TCP of the same port and records the first DNS query.
func newDNSRecorder(port int, domain string) (*recorder, error) {
	addr := "127.0.0.1:" + strconv.Itoa(port)
	pc, err := net.ListenPacket("udp", addr)
	if err != nil {
		return nil, err
	}
	l, err := net.Listen("tcp", addr)
	if err != nil {
		pc.Close()
		return nil, err
	}
	r := &recorder{C: make(chan flight, 16)}
	r.closers = append(r.closers, pc, l)
	classify := func(b []byte, network string) flight {
		m := new(mdns.Msg)
		if err := m.Unpack(b); err == nil && !m.Response && len(m.Question) > 0 {
			f := flight{Outer: "other", Net: network, Raw: m.Question[0].Name}
			if strings.HasSuffix(strings.ToLower(m.Question[0].Name), strings.ToLower(domain)+".") {
				f.Outer = "dns-query"
			}
			return f
		}
		return flight{Outer: classifyBytes(b), Net: network, Raw: clipS(b, 48)}
	}
	go func() {
		buf := make([]byte, 65536)
		for {
			n, _, err := pc.ReadFrom(buf)
			if err != nil {
				return
			}
			r.mu.Lock()
			r.conns++
			r.mu.Unlock()
			select {
			case r.C <- classify(buf[:n], "udp"):
			default:
			}
		}
	}()
	go func() {
		for {
			c, err := l.Accept()
			if err != nil {
				return
			}
			go func(c net.Conn) {
				defer c.Close()
				c.SetReadDeadline(time.Now().Add(ioWait))
				br := bufio.NewReader(c)
				var lb [2]byte
				if _, err := io.ReadFull(br, lb[:]); err != nil {
					return
				}
				n := int(lb[0])<<8 | int(lb[1])
				b := make([]byte, n)
				if _, err := io.ReadFull(br, b); err != nil {
					// not a DNS-over-TCP frame
					select {
					case r.C <- flight{Outer: classifyBytes(append(lb[:], b...)), Net: "tcp"}:
					default:
					}
					return
				}
				r.mu.Lock()
				r.conns++
				r.mu.Unlock()
				select {
				case r.C <- classify(b, "tcp"):
				default:
				}
			}(c)
		}
	}()
	return r, nil
}

// ---- free ports ----------------------------------------------------------------------------------

func freePort() int {
	for i := 0; i < 50; i++ {
		l, err := net.Listen("tcp", "127.0.0.1:0")
		if err != nil {
			continue
		}
		p := l.Addr().(*net.TCPAddr).Port
		u, err := net.ListenPacket("udp", "127.0.0.1:"+strconv.Itoa(p))
		l.Close()
		if err != nil {
			continue
		}
		u.Close()
		if p >= 41000 && p <= 41999 { // the repository's own tests live there
			continue
		}
		return p
	}
	return 0
}

// ---- /proc view of a process' sockets ------------------------------------------------------------

type sockInfo struct {
	Proto  string // tcp | udp | unix-stream | unix-dgram | unix-seqpacket
	Addr   string // ip:port or unix path ("@name" = abstract, "" = unnamed)
	Listen bool
}

func (s sockInfo) String() string {
	l := ""
	if s.Listen {
		l = " LISTEN"
	}
	return s.Proto + " " + s.Addr + l
}

func pidInodes(pid int) map[string]bool {
	res := map[string]bool{}
	dir := fmt.Sprintf("/proc/%d/fd", pid)
	ents, err := ioutil.ReadDir(dir)
	if err != nil {
		return res
	}
	for _, e := range ents {
		t, err := os.Readlink(filepath.Join(dir, e.Name()))
		if err == nil && strings.HasPrefix(t, "socket:[") {
			res[strings.TrimSuffix(strings.TrimPrefix(t, "socket:["), "]")] = true
		}
	}
	return res
}

func hexAddr(s string) string {
	p := strings.Split(s, ":")
	if len(p) != 2 {
		return s
	}
	port, _ := strconv.ParseUint(p[1], 16, 32)
	b, _ := hex.DecodeString(p[0])
	ip := ""
	if len(b) == 4 {
		ip = net.IPv4(b[3], b[2], b[1], b[0]).String()
	} else if len(b) == 16 {
		o := make(net.IP, 16)
		for i := 0; i < 4; i++ {
			o[i*4], o[i*4+1], o[i*4+2], o[i*4+3] = b[i*4+3], b[i*4+2], b[i*4+1], b[i*4]
		}
		ip = "[" + o.String() + "]"
	}
	return ip + ":" + strconv.Itoa(int(port))
}

// boundSockets lists the listening TCP sockets, bound UDP sockets and bound/listening unix sockets of pid.
func boundSockets(pid int) []sockInfo {
	ino := pidInodes(pid)
	var res []sockInfo
	if len(ino) == 0 {
		return res
	}
	for _, f := range []string{"tcp", "tcp6", "udp", "udp6"} {
		b, err := ioutil.ReadFile(fmt.Sprintf("/proc/%d/net/%s", pid, f))
		if err != nil {
			continue
		}
		for i, line := range strings.Split(string(b), "\n") {
			fs := strings.Fields(line)
			if i == 0 || len(fs) < 10 || !ino[fs[9]] {
				continue
			}
			if strings.HasPrefix(f, "tcp") {
				if fs[3] != "0A" {
					continue
				}
				res = append(res, sockInfo{Proto: "tcp", Addr: hexAddr(fs[1]), Listen: true})
			} else {
				if !strings.HasSuffix(fs[2], ":0000") { // connected UDP socket (client side)
					continue
				}
				res = append(res, sockInfo{Proto: "udp", Addr: hexAddr(fs[1])})
			}
		}
	}
	if b, err := ioutil.ReadFile(fmt.Sprintf("/proc/%d/net/unix", pid)); err == nil {
		for i, line := range strings.Split(string(b), "\n") {
			fs := strings.Fields(line)
			if i == 0 || len(fs) < 7 || !ino[fs[6]] {
				continue
			}
			path := ""
			if len(fs) >= 8 {
				path = fs[7]
			}
			flags, _ := strconv.ParseUint(fs[3], 16, 32)
			listen := flags&0x10000 != 0
			typ := map[string]string{"0001": "unix-stream", "0002": "unix-dgram", "0005": "unix-seqpacket"}[fs[4]]
			if path == "" && !listen {
				continue // unnamed, connected or unbound: not an endpoint
			}
			if typ == "unix-stream" || typ == "unix-seqpacket" {
				if !listen {
					continue
				}
			}
			res = append(res, sockInfo{Proto: typ, Addr: path, Listen: listen})
		}
	}
	return res
}

var _ = http.StatusOK
