// C18: address schemes select the documented transport, or are rejected (DESIGN.md §4 C18).
//
// Oracle = the reference table below, transcribed from /repo/README.md (line numbers of the README
// at the time of writing are kept with every entry). Two monitors use it:
//   - in-process ("parse"/"start"): the real parsers in their three input forms, and the real
//     Startup/Connect/Start/OpenConnection against endpoints and recorders owned by the harness;
//   - black-box ("bb"): the real binary as a child process, a transport classifier outside.
package c18

import (
	"bytes"
	"encoding/json"
	"fmt"
	"hash/fnv"
	"io"
	"math/rand"
	"os"
	"path/filepath"
	"regexp"
	"sort"
	"strings"
	"testing"
	"time"

	"github.com/bokysan/socketace/v2/internal/zzverif/vcommon"
	"github.com/sirupsen/logrus"
)

// ---- reference table ---------------------------------------------------------------------------

// ref: what a scheme means in one position. Kind: socket (X-SOCKETACE announce on a stream socket),
// ws (websocket over HTTP), stdio, packet (KCP over datagrams), dns; for channels/listeners "socket"
// means a plain stream socket that is dialled / listened on. Doc=false: not in the README but accepted
// by the code; such an entry is only used to check that IF the input is accepted it is given its
// natural reading (base scheme's transport, "+tls"/https/wss = encrypted). Rejection is fine.
type ref struct {
	Scheme string `json:"scheme"`
	Kind   string `json:"kind"`
	Net    string `json:"net"`
	TLS    bool   `json:"tls"`
	Doc    bool   `json:"doc"`
	Readme string `json:"readme"`
	GoType string `json:"gotype"`
}

const (
	posServer   = "server"
	posChannel  = "channel"
	posUpstream = "upstream"
	posListener = "listener"
)

var tables = map[string][]ref{
	posServer: {
		{"http", "ws", "tcp", false, true, "README L229,L233,L260-261", "*server.HttpServer"},
		{"https", "ws", "tcp", true, true, "README L229,L233; examples/config.yaml L21", "*server.HttpServer"},
		{"tcp", "socket", "tcp", false, true, "README L229,L234,L296", "*server.SocketServer"},
		{"tcp+tls", "socket", "tcp", true, true, "README L229,L297-298", "*server.SocketServer"},
		{"stdin", "stdio", "stdio", false, true, "README L229,L236-237,L330", "*server.IoServer"},
		{"stdin+tls", "stdio", "stdio", true, true, "README L230,L237", "*server.IoServer"},
		{"unix", "socket", "unix", false, true, "README L230,L234", "*server.SocketServer"},
		{"unix+tls", "socket", "unix", true, true, "README L230", "*server.SocketServer"},
		{"udp", "packet", "udp", false, true, "README L230,L235,L314", "*server.PacketServer"},
		{"unixpacket", "socket", "unixpacket", false, true, "README L208,L230", "*server.SocketServer"},
		{"unixgram", "packet", "unixgram", false, true, "README L235", "*server.PacketServer"},
		{"dns+udp", "dns", "udp", false, true, "README L209,L230,L354", "*server.DnsServer"},
		{"dns+tcp", "dns", "tcp", false, true, "README L209,L230,L359", "*server.DnsServer"},
		// accepted by the code, not documented
		{"ws", "ws", "tcp", false, false, "-", "*server.HttpServer"},
		{"wss", "ws", "tcp", true, false, "-", "*server.HttpServer"},
		{"http+tls", "ws", "tcp", true, false, "-", "*server.HttpServer"},
		{"ws+tls", "ws", "tcp", true, false, "-", "*server.HttpServer"},
		{"stdio", "stdio", "stdio", false, false, "-", "*server.IoServer"},
		{"stdio+tls", "stdio", "stdio", true, false, "-", "*server.IoServer"},
		{"unixpacket+tls", "socket", "unixpacket", true, false, "-", "*server.SocketServer"},
		{"udp4", "packet", "udp", false, false, "-", "*server.PacketServer"},
		{"udp6", "packet", "udp", false, false, "-", "*server.PacketServer"},
		{"dns", "dns", "udp", false, false, "-", "*server.DnsServer"},
		{"dns+tcp+tls", "dns", "tcp", true, false, "-", "*server.DnsServer"},
	},
	posChannel: {
		{"tcp", "socket", "tcp", false, true, "README L203", "*server.NetworkChannel"},
		{"unix", "socket", "unix", false, true, "README L204", "*server.NetworkChannel"},
		{"unixpacket", "socket", "unixpacket", false, true, "README L204", "*server.NetworkChannel"},
		{"socks", "socks", "-", false, false, "examples/config.yaml L7-8 (commented out)", "*server.SocksChannel"},
	},
	posUpstream: {
		{"tcp", "socket", "tcp", false, true, "README L376,L378", "*upstream.Socket"},
		{"tcp+tls", "socket", "tcp", true, true, "README L377,L380", "*upstream.Socket"},
		{"stdin", "stdio", "stdio", false, true, "README L377,L383", "*upstream.InputOutput"},
		{"stdin+tls", "stdio", "stdio", true, true, "README L377", "*upstream.InputOutput"},
		{"unix", "socket", "unix", false, true, "README L377", "*upstream.Socket"},
		{"unix+tls", "socket", "unix", true, true, "README L377", "*upstream.Socket"},
		{"http", "ws", "tcp", false, true, "README L377,L408,L427", "*upstream.Http"},
		{"https", "ws", "tcp", true, true, "README L377,L402,L428", "*upstream.Http"},
		{"unixgram", "packet", "unixgram", false, true, "README L377", "*upstream.Packet"},
		{"udp", "packet", "udp", false, true, "README L377,L379", "*upstream.Packet"},
		{"dns", "dns", "udp|tcp", false, true, "README L377,L381-382", "*upstream.Dns"},
		{"ws", "ws", "tcp", false, false, "-", "*upstream.Http"},
		{"wss", "ws", "tcp", true, false, "-", "*upstream.Http"},
		{"unixpacket", "socket", "unixpacket", false, false, "-", "*upstream.Socket"},
		{"unixpacket+tls", "socket", "unixpacket", true, false, "-", "*upstream.Socket"},
		{"udp4", "packet", "udp", false, false, "-", "*upstream.Packet"},
		{"udp6", "packet", "udp", false, false, "-", "*upstream.Packet"},
		{"dns+udp", "dns", "udp|tcp", false, false, "-", "*upstream.Dns"},
		{"dns+unixgram", "dns", "udp|tcp", false, false, "-", "*upstream.Dns"},
	},
	posListener: {
		{"tcp", "socket", "tcp", false, true, "README L384-386", "*listener.SocketListener"},
		{"unix", "socket", "unix", false, true, "README L386", "*listener.SocketListener"},
		{"stdin", "stdio", "stdio", false, true, "README L386,L402,L408", "*listener.InputOutputListener"},
		{"stdio", "stdio", "stdio", false, false, "-", "*listener.InputOutputListener"},
		{"unixpacket", "socket", "unixpacket", false, false, "-", "*listener.SocketListener"},
	},
}

func lookup(pos, scheme string) *ref {
	for i := range tables[pos] {
		if tables[pos][i].Scheme == scheme {
			return &tables[pos][i]
		}
	}
	return nil
}

// readScheme is how a reader of the README reads the scheme of an address: the text before "://"
// or ":", case-insensitively (URL schemes are case-insensitive), surrounding blanks ignored.
func readScheme(s string) string {
	s = strings.TrimSpace(s)
	if i := strings.Index(s, ":"); i >= 0 {
		return strings.ToLower(s[:i])
	}
	return ""
}

// naturalRef: the table entry an address would have to be given if it is accepted at all.
func naturalRef(pos, addr string) *ref {
	return lookup(pos, readScheme(addr))
}

// asksEncryption: the text of the scheme announces encryption (so coming up in plaintext would be a
// silent downgrade whatever else the scheme means).
func asksEncryption(addr string) bool {
	s := readScheme(addr)
	if s == "" {
		s = strings.ToLower(strings.TrimSpace(addr))
		if i := strings.IndexAny(s, "/ "); i >= 0 {
			s = s[:i]
		}
	}
	return strings.Contains(s, "tls") || strings.Contains(s, "ssl") || s == "https" || s == "wss" ||
		strings.HasPrefix(s, "https+") || strings.HasPrefix(s, "wss+") || s == "tcps"
}

// ---- inputs --------------------------------------------------------------------------------------

// input is one configuration item for one position. Addr is a template: {P} a port the harness
// picks, {F} a second one, {ABS} an absolute directory, {N} a per-case unique name.
type input struct {
	Pos    string `json:"pos"`
	Class  string `json:"class"`
	Addr   string `json:"addr"`
	Shape  string `json:"shape,omitempty"` // structural near-miss (see buildItem); "" = address is a string
	Name   string `json:"name,omitempty"`  // channel name (channel, listener)
	Fwd    string `json:"fwd,omitempty"`   // listener forward address template
	Raw    string `json:"raw,omitempty"`   // listener/channel: literal command-line string (template)
	Want   string `json:"want"`            // accept | reject | any
	Mutant bool   `json:"mutant,omitempty"`
	NoCert bool   `json:"no_certificate,omitempty"` // server: the entry carries no certificate / private key
	// pair monitor (c18_pair_test.go): the upstream address is connected to a real server of this scheme
	Peer       string `json:"peer_server_scheme,omitempty"`
	PeerCert   bool   `json:"peer_server_has_certificate,omitempty"`
	MustSecure bool   `json:"must_secure,omitempty"`
}

// classifyMutant gives a PRNG-made address the class (and expectation) a hand-written input of the
// same form would have, so that signatures do not depend on the seed.
func classifyMutant(pos, a string) (class, want string) {
	t := strings.TrimSpace(a)
	nat := naturalRef(pos, t)
	i := strings.Index(t, "://")
	if strings.Contains(t, "<<") {
		if nat == nil {
			return "yaml-special", "reject"
		}
		return "yaml-special", "any"
	}
	switch {
	case nat == nil:
		if asksEncryption(t) {
			return "tls-suffix-misuse", "reject"
		}
		if strings.Index(t, ":") < 0 {
			return "bad-url", "reject"
		}
		return "unknown-scheme", "reject"
	case i < 0 || i != strings.Index(t, ":"):
		if nat.Net == "stdio" || nat.Net == "-" {
			return "scheme-colon", "any"
		}
		if strings.HasPrefix(nat.Net, "unix") {
			return "unix-no-authority", "any" // unix:name.sock - a path without "//": lenient reading or rejection are both fine
		}
		return "missing-hostport", "reject"
	case strings.HasPrefix(t[i+3:], "/") && (nat.Net == "tcp" || nat.Net == "udp" || nat.Net == "udp|tcp"):
		return "missing-hostport", "reject"
	case t[:i] != strings.ToLower(t[:i]) || t != a:
		return "case-variant", "any"
	case nat.Doc:
		return "documented-by-mutation", "any"
	}
	return "extension", "any"
}

func (in input) key() string {
	k := strings.Join([]string{in.Pos, in.Class, in.Addr, in.Shape, in.Name, in.Fwd, in.Raw}, "|")
	if in.NoCert {
		k += "|no-certificate"
	}
	if in.Peer != "" {
		k += fmt.Sprintf("|peer=%s,cert=%v,mustSecure=%v", in.Peer, in.PeerCert, in.MustSecure)
	}
	return k
}

// class used in panic signatures: structural classes keep their name, all others collapse
func (in input) panicClass() string {
	if in.Pos == posServer || in.Pos == posChannel {
		switch in.Class {
		case "missing-address", "non-string-address", "non-map-item", "empty", "yaml-special":
			return in.Class
		}
	}
	if in.Pos == posListener && in.Fwd != "" && in.Class != "documented" && !strings.HasPrefix(in.Class, "forward-") {
		return in.Class + "+forward" // a listen part that is no good, followed by a forward part (c18_forward_test.go)
	}
	return "string-address"
}

// parseClass: class used in signatures of the parse monitor (where a unix path is spelled is
// irrelevant before anything is started)
func (in input) parseClass() string {
	if in.Class == "unix-abs-path" || in.Class == "unix-rel-path" {
		return "documented"
	}
	return in.Class
}

var structural = map[string]bool{"missing-address": true, "non-string-address": true, "non-map-item": true}

func tcpish(s string) string { return s + "://127.0.0.1:{P}" }

func deterministicInputs() []input {
	var res []input
	add := func(pos, class, addr, want string) {
		res = append(res, input{Pos: pos, Class: class, Addr: addr, Want: want, Name: "ch"})
	}
	hostFor := func(pos string, r ref) []([2]string) { // (class, addr)
		switch r.Net {
		case "tcp", "udp", "udp|tcp":
			if r.Kind == "dns" && pos == posUpstream {
				return [][2]string{{"", r.Scheme + "://example.org?dns=127.0.0.1:{P}&direct=false"}}
			}
			h := "127.0.0.1:{P}"
			if r.Scheme == "udp6" {
				h = "[::1]:{P}"
			}
			a := r.Scheme + "://" + h
			if r.Kind == "ws" && pos == posUpstream {
				a += "/ws/all"
			}
			return [][2]string{{"", a}}
		case "unix", "unixpacket", "unixgram":
			return [][2]string{{"unix-abs-path", r.Scheme + "://{ABS}/s{N}.sock"}, {"unix-rel-path", r.Scheme + "://s{N}.sock"}}
		case "stdio":
			return [][2]string{{"", r.Scheme + "://"}, {"scheme-colon", r.Scheme + ":"}}
		case "-":
			return [][2]string{{"", r.Scheme + "://"}, {"scheme-colon", r.Scheme + ":"}}
		}
		return nil
	}
	for _, pos := range []string{posServer, posChannel, posUpstream, posListener} {
		for _, r := range tables[pos] {
			for _, ca := range hostFor(pos, r) {
				class, want := "documented", "accept"
				if !r.Doc {
					class, want = "extension", "any"
				}
				if ca[0] == "unix-abs-path" && r.Doc {
					class = "unix-abs-path" // the README's own spelling: unix:///var/sock/app.sock
				} else if ca[0] == "unix-rel-path" {
					if r.Doc {
						class = "unix-rel-path"
					}
				} else if ca[0] == "scheme-colon" {
					class, want = "scheme-colon", "any" // "stdin:" - what the --upstream help text shows
				}
				add(pos, class, ca[1], want)
			}
		}
	}
	// every server scheme once more without a certificate on the entry: a scheme that asks for encryption must then be
	// refused (or still come up encrypted), a plain one is unaffected
	for _, in := range append([]input{}, res...) {
		if in.Pos == posServer && (in.Class == "documented" || in.Class == "extension" || in.Class == "unix-abs-path") {
			in.Class, in.Want, in.NoCert = "no-certificate", "any", true
			res = append(res, in)
		}
	}
	// README L203: tcp://[::1]:8080 for channels
	add(posChannel, "documented-ipv6", "tcp://[::1]:{P}", "any")
	// README L376/L383: the protocol alone ("stdin") is a documented upstream
	add(posUpstream, "bare-scheme", "stdin", "accept")
	add(posUpstream, "bare-scheme", "stdin+tls", "accept")
	// KCP pre-shared key (undocumented): user-info password
	add(posServer, "udp-password", "udp://:secret@127.0.0.1:{P}", "any")
	add(posUpstream, "udp-password", "udp://:secret@127.0.0.1:{P}", "any")
	// README L382 form with a trailing comma in the server list
	add(posUpstream, "dns-empty-server-item", "dns://example.org?dns=127.0.0.1:{P},&direct=false", "any")

	unknown := map[string][]string{
		posServer:   {"foo", "ssl", "tls", "tcps", "socks", "socks5", "ftp", "tcp4", "tcp6", "websocket", "serial", "kcp", "quic", "doh", "unixgram+kcp", "dns+https", "tpc4"},
		posChannel:  {"foo", "udp", "unixgram", "http", "https", "stdin", "tcp4", "tcp6", "ws", "socks5", "dns"},
		posUpstream: {"foo", "ssl", "tls", "tcps", "socks", "ftp", "tcp4", "tcp6", "websocket", "http+tls", "ws+tls", "stdio", "stdio+tls", "dns+tcp", "kcp", "tpc4"},
		posListener: {"foo", "udp", "unixgram", "http", "https", "tcp4", "tcp6", "dns", "ws", "socks"},
	}
	misuse := map[string][]string{
		posServer:   {"tcp+ssl", "tcp+tls+tls", "tcp+tlsx", "tcp+tl", "tcp+", "+tls", "udp+tls", "unixgram+tls", "dns+udp+tls", "dns+tls", "https+tls", "wss+tls", "stdin+ssl", "tcp-tls", "tcp_tls", "tls+tcp", "tcp+starttls", "unix+ssl"},
		posChannel:  {"tcp+tls", "unix+tls", "unixpacket+tls", "tcp+ssl", "socks+tls"},
		posUpstream: {"tcp+ssl", "tcp+tls+tls", "tcp+tlsx", "tcp+", "+tls", "udp+tls", "unixgram+tls", "dns+tls", "https+tls", "wss+tls", "stdin+ssl", "tcp-tls", "tls+tcp", "unix+ssl", "http+ssl"},
		posListener: {"tcp+tls", "unix+tls", "stdin+tls", "tcp+ssl", "unixpacket+tls"},
	}
	for _, pos := range []string{posServer, posChannel, posUpstream, posListener} {
		for _, s := range unknown[pos] {
			add(pos, "unknown-scheme", tcpish(s), "reject")
		}
		for _, s := range misuse[pos] {
			add(pos, "tls-suffix-misuse", tcpish(s), "reject")
		}
	}
	// upper / mixed case: either rejected or exactly the lower-case meaning
	for _, s := range []string{"TCP", "Tcp+Tls", "TCP+TLS", "HTTPS", "Http", "DNS+UDP", "Udp", "WSS", "tcp+TLS"} {
		add(posServer, "case-variant", tcpish(s), "any")
	}
	add(posServer, "case-variant", "UNIX://s{N}.sock", "any")
	add(posServer, "case-variant", "STDIN://", "any")
	add(posServer, "case-variant", "Stdin+TLS://", "any")
	for _, s := range []string{"TCP", "Tcp"} {
		add(posChannel, "case-variant", tcpish(s), "any")
	}
	add(posChannel, "case-variant", "Unix://s{N}.sock", "any")
	add(posChannel, "case-variant", "SOCKS://", "any")
	for _, s := range []string{"TCP", "TCP+TLS", "tcp+TLS", "Tcp+Tls", "HTTPS", "WSS", "Http", "UDP"} {
		a := tcpish(s)
		if strings.HasPrefix(strings.ToLower(s), "http") || strings.ToLower(s) == "wss" {
			a += "/ws/all"
		}
		add(posUpstream, "case-variant", a, "any")
	}
	add(posUpstream, "case-variant", "STDIN://", "any")
	add(posUpstream, "case-variant", "Unix+TLS://s{N}.sock", "any")
	add(posUpstream, "case-variant", "DNS://example.org?dns=127.0.0.1:{P}&direct=false", "any")
	for _, s := range []string{"TCP", "Tcp"} {
		add(posListener, "case-variant", tcpish(s), "any")
	}
	add(posListener, "case-variant", "UNIX://s{N}.sock", "any")
	add(posListener, "case-variant", "STDIN://", "any")

	// missing host / port
	mh := map[string][]string{
		posServer:   {"tcp://", "tcp://127.0.0.1", "tcp://127.0.0.1:", "tcp:", "tcp", "tcp:///", "tcp+tls://", "http://", "https://", "http://127.0.0.1", "udp://", "udp://127.0.0.1", "unix://", "unix:", "unix+tls://", "unixpacket://", "unixgram://", "dns+udp://", "dns+tcp://", "dns+udp://127.0.0.1"},
		posChannel:  {"tcp://", "tcp://127.0.0.1", "tcp://127.0.0.1:", "tcp:", "tcp", "unix://", "unix:", "unixpacket://"},
		posUpstream: {"tcp://", "tcp://127.0.0.1", "tcp://127.0.0.1:", "tcp:", "tcp", "tcp+tls://", "tcp+tls://127.0.0.1", "http://", "https://", "udp://", "udp://127.0.0.1", "unix://", "unix+tls://", "unixgram://", "dns://", "dns:", "dns"},
		posListener: {"tcp://", "tcp://127.0.0.1", "tcp://127.0.0.1:", "tcp:", "tcp", "unix://", "unix:"},
	}
	for _, pos := range []string{posServer, posChannel, posUpstream, posListener} { // fixed order: every shard must build the same list
		for _, s := range mh[pos] {
			add(pos, "missing-hostport", s, "reject")
		}
	}
	// empty / blank / surrounding blanks
	for _, pos := range []string{posServer, posChannel, posUpstream, posListener} {
		add(pos, "empty", "", "reject")
		add(pos, "empty", "   ", "reject")
		add(pos, "whitespace", "  tcp://127.0.0.1:{P}  ", "any")
		add(pos, "whitespace", "tcp ://127.0.0.1:{P}", "reject")
		add(pos, "whitespace", "tcp:// 127.0.0.1:{P}", "reject")
	}
	// damaged URLs
	bad := []string{"://127.0.0.1:{P}", "tcp://127.0.0.1:{P}x", "tcp://[::1", "tcp//127.0.0.1:{P}",
		"//127.0.0.1:{P}", "127.0.0.1:{P}", "tcp://127.0.0.1:99999", "tcp://127.0.0.1:-1", "%74cp://127.0.0.1:{P}", "tcp;//127.0.0.1:{P}",
		"tcp://127.0.0.1:{P}:{P}"}
	// host:port present but not where a URL keeps it ("tcp:127.0.0.1:22" is the spelling of the --channel help text)
	for _, pos := range []string{posServer, posChannel, posUpstream, posListener} {
		for _, s := range []string{"tcp:/127.0.0.1:{P}", "tcp:127.0.0.1:{P}"} {
			add(pos, "missing-hostport", s, "reject")
		}
	}
	for _, s := range []string{"tcp+tls:/127.0.0.1:{P}", "tcp+tls:127.0.0.1:{P}", "https:/127.0.0.1:{P}", "udp:127.0.0.1:{P}"} {
		add(posServer, "missing-hostport", s, "reject")
		add(posUpstream, "missing-hostport", s, "reject")
	}
	for _, pos := range []string{posServer, posChannel, posUpstream, posListener} {
		for _, s := range bad {
			add(pos, "bad-url", s, "reject")
		}
		// extra URL components around a good address: same meaning or rejected
		add(pos, "url-extras", "tcp://127.0.0.1:{P}/some/path?x=1#frag", "any")
		add(pos, "url-extras", "tcp://user@127.0.0.1:{P}", "any")
	}

	// "<<" (the YAML merge key) inside an otherwise ordinary, quoted string
	for _, pos := range []string{posServer, posChannel, posUpstream, posListener} {
		add(pos, "yaml-special", "tcp://127.0.0.1:{P}/<<", "any")
		add(pos, "yaml-special", "tcp<<tls://127.0.0.1:{P}", "reject")
	}

	// structural near-misses of the YAML/JSON item (server, channel)
	for _, pos := range []string{posServer, posChannel} {
		st := func(class, shape string) {
			res = append(res, input{Pos: pos, Class: class, Shape: shape, Addr: "tcp://127.0.0.1:{P}", Name: "ch", Want: "reject"})
		}
		for _, s := range []string{"no-address", "address-typo", "address-uppercase-key", "kind-only", "empty-map"} {
			st("missing-address", s)
		}
		for _, s := range []string{"addr-int", "addr-bool", "addr-null", "addr-float", "addr-list", "addr-map"} {
			st("non-string-address", s)
		}
		for _, s := range []string{"item-string", "item-int", "item-null", "item-list", "list-scalar", "list-map"} {
			st("non-map-item", s)
		}
	}

	// listener specifics: name~listen[~forward]
	lst := func(class, raw, want string) {
		res = append(res, input{Pos: posListener, Class: class, Raw: raw, Want: want})
	}
	res = append(res, input{Pos: posListener, Class: "documented", Addr: "tcp://127.0.0.1:{P}", Fwd: "tcp://127.0.0.1:{F}", Name: "ch", Want: "accept"})
	res = append(res, input{Pos: posListener, Class: "forward-unknown-scheme", Addr: "tcp://127.0.0.1:{P}", Fwd: "foo://127.0.0.1:{F}", Name: "ch", Want: "any"})
	res = append(res, input{Pos: posListener, Class: "forward-bad-url", Addr: "tcp://127.0.0.1:{P}", Fwd: "tcp://[::1", Name: "ch", Want: "reject"})
	lst("extra-separator", "ch~tcp://127.0.0.1:{P}~tcp://127.0.0.1:{F}~extra", "any")
	lst("extra-separator", "ch~~tcp://127.0.0.1:{P}", "reject")
	lst("extra-separator", "ch~tcp://127.0.0.1:{P}~", "any")
	lst("extra-separator", "ch~tcp://127.0.0.1:{P}~~", "any")
	lst("extra-separator", "~tcp://127.0.0.1:{P}", "any")
	lst("extra-separator", "ch->tcp://127.0.0.1:{P}", "reject")
	lst("extra-separator", "ch=tcp://127.0.0.1:{P}", "reject")
	lst("extra-separator", "ch tcp://127.0.0.1:{P}", "reject")
	lst("extra-separator", "ch~tcp://127.0.0.1:{P}->tcp://127.0.0.1:{F}", "reject")
	lst("missing-listen-part", "ch~", "reject")
	lst("missing-listen-part", "~", "reject")
	lst("missing-listen-part", "~~", "reject")
	lst("missing-listen-part", "ch", "reject")
	lst("missing-listen-part", "tcp://127.0.0.1:{P}", "reject")

	// channel command-line form "<name>-><protocol>:<address>" (help text of --channel)
	chn := func(class, raw, want string) {
		res = append(res, input{Pos: posChannel, Class: class, Raw: raw, Want: want})
	}
	chn("documented", "ssh->tcp:127.0.0.1:{P}", "accept") // the example of the --channel help text
	chn("cli-regex-form", "/ssh->tcp://127.0.0.1:{P}", "accept")
	chn("cli-regex-form", "/ssh->tcp:127.0.0.1:{P}", "accept")
	chn("extra-separator", "ch->x->tcp://127.0.0.1:{P}", "reject")
	chn("extra-separator", "->tcp://127.0.0.1:{P}", "any")
	chn("extra-separator", "ch->", "reject")
	chn("extra-separator", "ch", "reject")
	chn("extra-separator", "ch~tcp://127.0.0.1:{P}", "reject")
	chn("extra-separator", "ch->->tcp://127.0.0.1:{P}", "reject")
	return res
}

// mutatePrefix damages the scheme/separator part of an address: one or two PRNG-chosen edits.
func mutatePrefix(rng *rand.Rand, pre []byte) []byte {
	ops := 1 + rng.Intn(2)
	for o := 0; o < ops; o++ {
		switch rng.Intn(9) {
		case 0: // flip case
			i := rng.Intn(len(pre))
			if pre[i] >= 'a' && pre[i] <= 'z' {
				pre[i] -= 32
			} else if pre[i] >= 'A' && pre[i] <= 'Z' {
				pre[i] += 32
			}
		case 1: // drop a byte
			if len(pre) > 1 {
				i := rng.Intn(len(pre))
				pre = append(pre[:i:i], pre[i+1:]...)
			}
		case 2: // duplicate a byte
			i := rng.Intn(len(pre))
			pre = append(pre[:i+1:i+1], pre[i:]...)
		case 3: // insert a suffix before the separator
			suf := []string{"+tls", "+ssl", "+TLS", "s", "+tcp", "+udp", "4", "6", "+"}[rng.Intn(9)]
			if i := bytes.Index(pre, []byte(":")); i >= 0 {
				pre = append(pre[:i:i], append([]byte(suf), pre[i:]...)...)
			} else {
				pre = append(pre, suf...)
			}
		case 4: // change the separator
			sep := []string{":", ":/", "//", ";//", ":", "::", " ://", ":\\\\"}[rng.Intn(8)]
			if i := bytes.Index(pre, []byte("://")); i >= 0 {
				pre = append(pre[:i:i], sep...)
			}
		case 5: // '+' -> other joiner
			j := []byte{'-', '_', ' ', '.', '&'}[rng.Intn(5)]
			if i := bytes.IndexByte(pre, '+'); i >= 0 {
				pre[i] = j
			}
		case 6: // tls -> near words
			w := []string{"ssl", "tsl", "tl", "tlss", "TLS", "starttls"}[rng.Intn(6)]
			pre = bytes.Replace(pre, []byte("tls"), []byte(w), 1)
		case 7: // swap two neighbours
			if len(pre) > 2 {
				i := rng.Intn(len(pre) - 1)
				pre[i], pre[i+1] = pre[i+1], pre[i]
			}
		case 8: // replace a byte with a random printable one
			i := rng.Intn(len(pre))
			pre[i] = byte(0x21 + rng.Intn(0x5e))
		}
	}
	return pre
}

// mutants: PRNG-determined damage to the scheme/separator part of a good address (the host part,
// which holds the harness' placeholders, is never touched).
func mutantInputs(seed int64, n int) []input {
	rng := vcommon.NewRand(seed, "c18/mutants")
	var res []input
	poss := []string{posServer, posChannel, posUpstream, posListener}
	for len(res) < n {
		pos := poss[rng.Intn(len(poss))]
		t := tables[pos]
		r := t[rng.Intn(len(t))]
		host := "127.0.0.1:{P}"
		switch r.Net {
		case "unix", "unixpacket", "unixgram":
			host = "s{N}.sock"
		case "stdio", "-":
			host = ""
		}
		if r.Kind == "dns" && pos == posUpstream {
			host = "example.org?dns=127.0.0.1:{P}&direct=false"
		}
		pre := mutatePrefix(rng, []byte(r.Scheme+"://"))
		a := string(pre) + host
		if a == r.Scheme+"://"+host {
			continue
		}
		if strings.HasPrefix(host, "s{N}") {
			// a single '/' (or three) in front of the socket name would name a file in the root directory
			k := 0
			for i := len(pre) - 1; i >= 0 && pre[i] == '/'; i-- {
				k++
			}
			if k == 1 || k >= 3 {
				continue
			}
		}
		class, want := classifyMutant(pos, a)
		res = append(res, input{Pos: pos, Class: class, Addr: a, Name: "ch", Want: want, Mutant: true})
	}
	return res
}

// ---- case descriptor / dispatch ----------------------------------------------------------------

type caseDesc struct {
	Mon  string `json:"mon"` // parse | start | bb | bb-e2e
	Form string `json:"form,omitempty"`
	In   input  `json:"in"`
	N    int    `json:"n"`
}

type env struct {
	rec     *vcommon.Rec
	tmp     string // absolute scratch directory of this child
	bin     string // path of the real binary ("" = black-box monitor unavailable)
	crt     *certFiles
	dnsUsed bool // one in-process DnsServer per process
	works   map[string]bool
	t       *testing.T
	// context part of the parse monitor (c18_context_test.go)
	ctxOther map[string]string
	ctxSib   map[string]pitem
}

func (e *env) viol(sig string, d caseDesc, observed interface{}) {
	e.rec.Violation(sig, d, observed)
}

func sigOf(in input, form, kind string) string {
	return fmt.Sprintf("%s:%s:%s:%s", in.Pos, form, in.parseClass(), kind)
}

func TestVerifC18(t *testing.T) {
	logrus.SetLevel(logrus.PanicLevel)
	logrus.SetOutput(io.Discard)
	rec := vcommon.Open()
	defer rec.Close()

	base := os.Getenv("VERIF_TMP")
	if base == "" {
		base = os.TempDir()
	}
	tmp, err := os.MkdirTemp(base, fmt.Sprintf("c18w%d-", rec.Shard()))
	if err != nil {
		t.Fatal(err)
	}
	defer os.RemoveAll(tmp)
	if err := os.Chdir(tmp); err != nil {
		t.Fatal(err)
	}
	crt, err := makeCert(tmp)
	if err != nil {
		t.Fatal(err)
	}
	e := &env{rec: rec, tmp: tmp, bin: os.Getenv("VERIF_C18_BIN"), crt: crt, t: t, works: map[string]bool{}}
	if e.bin != "" {
		if _, err := os.Stat(e.bin); err != nil {
			t.Fatalf("VERIF_C18_BIN: %v", err)
		}
	}

	if rec.Replay != nil {
		var d caseDesc
		if err := json.Unmarshal(rec.Replay, &d); err != nil {
			t.Fatal(err)
		}
		e.runCase(d)
		return
	}

	for _, r := range allRefs() {
		rec.Seen("table_entries", r)
	}

	// work items: fixed function of (seed, tier)
	det := deterministicInputs()
	mutParse := mutantInputs(rec.Seed(), rec.Pick(600, 12000))
	var items []caseDesc
	n := 0
	push := func(mon string, in input) {
		n++
		items = append(items, caseDesc{Mon: mon, In: in, N: n})
	}
	for _, in := range det {
		push("parse", in)
	}
	for _, in := range mutParse {
		push("parse", in)
	}
	for _, in := range det {
		if startable(in) {
			push("start", in)
		}
	}
	for i, in := range mutParse {
		if i < rec.Pick(100, 1500) && startable(in) {
			push("start", in)
		}
	}
	// the two-address position: every listen part of the lists above once more with a forward part behind it,
	// and every forward part behind good listen parts (c18_forward_test.go)
	fwdDet := forwardInputs(det)
	fwdMut := forwardMutants(rec.Seed(), rec.Pick(120, 3000))
	for _, in := range fwdDet {
		push("parse", in)
	}
	for _, in := range fwdMut {
		push("parse", in)
	}
	for _, in := range fwdDet {
		if forwardStartable(in) {
			push("start", in)
		}
	}
	for i, in := range fwdMut {
		if i < rec.Pick(60, 1000) && forwardStartable(in) {
			push("start", in)
		}
	}
	// upstream spellings against real servers of every transport kind, a recording relay in between (c18_pair_test.go)
	for _, in := range pairInputs(rec.Seed(), rec.Thorough()) {
		push("pair", in)
	}
	if e.bin != "" {
		for _, in := range fwdDet {
			if forwardBBWorthwhile(in) {
				push("bb", in)
			}
		}
		for _, in := range det {
			if bbWorthwhile(in) {
				push("bb", in)
			}
		}
		for i, in := range mutParse {
			if i >= rec.Pick(100, 1500) && i < rec.Pick(100, 1500)+rec.Pick(80, 1000) && bbWorthwhile(in) {
				push("bb", in)
			}
		}
		for _, in := range det {
			if in.Pos == posChannel && in.Shape == "" && in.Raw == "" && (in.Class == "documented" || in.Class == "unix-abs-path" || in.Class == "unix-rel-path") {
				push("bb-e2e", in)
			}
		}
	} else {
		rec.Note("black-box monitor disabled: VERIF_C18_BIN not set", nil)
	}

	// spread the expensive kinds evenly: order by (monitor, index) and deal round-robin
	sort.SliceStable(items, func(i, j int) bool { return items[i].Mon < items[j].Mon })
	wl, _ := json.Marshal(items)
	rec.Seen(fmt.Sprintf("worklist_hash:%s:blackbox=%v", rec.Tier(), e.bin != ""), fmt.Sprintf("%d items, fnv %x", len(items), fnv64(wl)))
	for idx, d := range items {
		if !rec.Mine(idx) {
			continue
		}
		e.runCase(d)
	}
}

func fnv64(b []byte) uint64 {
	h := fnv.New64a()
	h.Write(b)
	return h.Sum64()
}

func allRefs() []string {
	var res []string
	for pos, l := range tables {
		for _, r := range l {
			tls := "plain"
			if r.TLS {
				tls = "tls"
			}
			doc := "README"
			if !r.Doc {
				doc = "code-only"
			}
			res = append(res, fmt.Sprintf("%s:%s=%s/%s/%s(%s)", pos, r.Scheme, r.Kind, r.Net, tls, doc))
		}
	}
	sort.Strings(res)
	return res
}

func (e *env) runCase(d caseDesc) {
	e.rec.Mark(d)
	t0 := time.Now()
	defer func() {
		if el := time.Since(t0); el > 3*time.Second {
			e.rec.Note("slow case (diagnostic only)", map[string]interface{}{"seconds": el.Seconds(), "case": d})
		}
		e.rec.Stat("cases:"+d.Mon, 1)
	}()
	switch d.Mon {
	case "parse":
		e.parseCase(d)
	case "start":
		e.startCase(d)
	case "bb":
		e.bbCase(d)
	case "bb-e2e":
		e.bbChannelE2E(d)
	case "pair":
		e.pairCase(d)
	}
}

// resolve fills a template. Ports: p, f; dir: absolute directory for {ABS}.
func resolve(tmpl string, p, f int, abs string, n int) string {
	s := strings.Replace(tmpl, "{P}", fmt.Sprint(p), -1)
	s = strings.Replace(s, "{F}", fmt.Sprint(f), -1)
	s = strings.Replace(s, "{ABS}", abs, -1)
	s = strings.Replace(s, "{N}", fmt.Sprint(n), -1)
	return s
}

var hostPortRe = regexp.MustCompile(`(\d{1,3}(?:\.\d{1,3}){3}|\[[0-9a-fA-F:]+\]):(\d{1,5})`)
var sockNameRe = regexp.MustCompile(`/?[^\s:?#~>]*s\d+\.sock`)

// namedEndpoints: every endpoint the text of an address names, wherever in the text it stands. An
// implementation that reads a malformed address leniently may only end up at one of these.
func namedEndpoints(text string, r *ref, cwd string) []string {
	var res []string
	if r == nil {
		return nil
	}
	switch r.Net {
	case "tcp", "udp", "udp|tcp":
		for _, m := range hostPortRe.FindAllString(text, -1) {
			res = append(res, m)
		}
	case "unix", "unixpacket", "unixgram":
		for _, m := range sockNameRe.FindAllString(text, -1) {
			if strings.HasPrefix(m, "/") {
				res = append(res, filepath.Clean(m))
			} else {
				res = append(res, filepath.Join(cwd, m))
			}
		}
	}
	return res
}

func namedHit(network, bound string, named []string) bool {
	for _, n := range named {
		if sameEndpoint(network, bound, n) {
			return true
		}
	}
	return false
}

// endpointOf: where a well-formed address points (network, address as the OS sees it).
func endpointOf(r *ref, addr string, cwd string) (network, where string) {
	s := strings.TrimSpace(addr)
	i := strings.Index(s, "://")
	if r == nil || i < 0 {
		return "", ""
	}
	rest := s[i+3:]
	switch r.Net {
	case "tcp", "udp":
		if j := strings.IndexAny(rest, "/?#"); j >= 0 {
			rest = rest[:j]
		}
		if j := strings.LastIndex(rest, "@"); j >= 0 {
			rest = rest[j+1:]
		}
		return r.Net, rest
	case "unix", "unixpacket", "unixgram":
		if rest == "" {
			return r.Net, ""
		}
		if strings.HasPrefix(rest, "/") {
			return r.Net, rest
		}
		return r.Net, filepath.Join(cwd, rest)
	}
	return r.Net, ""
}
