package e2e

// Targets that are slow to ACCEPT a connection (C02).
//
// A logical connection whose target has not accepted yet is "being opened" for as long as the target likes. Two ways
// of keeping it in that state:
//
//   - Gate: a server.Channel that wraps the real channel object; a connection attempt that arrives while the gate
//     is armed waits (inside the channel's OpenConnection, i.e. where the server dials the target) until the harness
//     releases it, and then goes on to the real NetworkChannel.OpenConnection. The harness sees every arrival, and can
//     let the connection complete afterwards.
//   - Blackhole: an ordinary TCP listener (raw listen(fd, 0)) whose accept queue is full and that never accepts: the
//     kernel drops further SYNs, so the unmodified server.NetworkChannel's net.Dial stays in SYN_SENT (for about two
//     minutes with the default tcp_syn_retries). Whether the queue is full, and which dials are pending, is read from
//     /proc/net/tcp (a state, not a timing).

import (
	"bufio"
	"fmt"
	"net"
	"os"
	"strconv"
	"strings"
	"sync"
	"sync/atomic"
	"syscall"
	"time"

	"github.com/bokysan/socketace/v2/internal/server"
	"github.com/bokysan/socketace/v2/internal/util/addr"
)

// Gate holds connection attempts to the channel(s) it wraps while it is armed.
type Gate struct {
	mu      sync.Mutex
	armed   int
	arrived int
	open    chan struct{}
}

func NewGate() *Gate { return &Gate{open: make(chan struct{})} }

// Arm makes the next n connection attempts wait for Release.
func (g *Gate) Arm(n int) {
	g.mu.Lock()
	g.armed += n
	g.mu.Unlock()
}

// Arrived is the number of connection attempts that have been held so far (released ones included).
func (g *Gate) Arrived() int {
	g.mu.Lock()
	defer g.mu.Unlock()
	return g.arrived
}

// Release lets every held attempt go on to the real target and disarms the gate.
func (g *Gate) Release() {
	g.mu.Lock()
	close(g.open)
	g.open = make(chan struct{})
	g.armed = 0
	g.mu.Unlock()
}

func (g *Gate) pass() {
	g.mu.Lock()
	if g.armed == 0 {
		g.mu.Unlock()
		return
	}
	g.armed--
	g.arrived++
	ch := g.open
	g.mu.Unlock()
	Bump(1)
	<-ch
}

// Channel wraps a channel object: the same channel, whose target may take its time to accept.
func (g *Gate) Channel(inner server.Channel) server.Channel {
	return &gatedChannel{Channel: inner, g: g}
}

type gatedChannel struct {
	server.Channel
	g *Gate
}

func (c *gatedChannel) OpenConnection() (net.Conn, error) {
	c.g.pass()
	return c.Channel.OpenConnection()
}

// Blackhole is a TCP listener on the loopback interface that never accepts and whose accept queue is full.
type Blackhole struct {
	fd     int
	Port   int
	Addr   string // 127.0.0.1:port
	fill   []net.Conn
	closed int32
}

// NewBlackhole returns an error when this kernel / sandbox does not give the behaviour (or does not show it in
// /proc/net/tcp): the caller then has to do without.
func NewBlackhole() (*Blackhole, error) {
	for attempt := 0; ; attempt++ {
		fd, err := syscall.Socket(syscall.AF_INET, syscall.SOCK_STREAM|syscall.SOCK_CLOEXEC, 0)
		if err != nil {
			return nil, fmt.Errorf("socket: %v", err)
		}
		fail := func(e error) (*Blackhole, error) { syscall.Close(fd); return nil, e }
		if err := syscall.Bind(fd, &syscall.SockaddrInet4{Port: 0, Addr: [4]byte{127, 0, 0, 1}}); err != nil {
			return fail(fmt.Errorf("bind: %v", err))
		}
		if err := syscall.Listen(fd, 0); err != nil {
			return fail(fmt.Errorf("listen: %v", err))
		}
		sa, err := syscall.Getsockname(fd)
		if err != nil {
			return fail(fmt.Errorf("getsockname: %v", err))
		}
		port := sa.(*syscall.SockaddrInet4).Port
		if port >= 40900 && port <= 42100 && attempt < 50 {
			syscall.Close(fd) // the repository's own tests use fixed ports in that range
			continue
		}
		b := &Blackhole{fd: fd, Port: port, Addr: fmt.Sprintf("127.0.0.1:%d", port)}
		if _, ok := b.queue(); !ok {
			b.Close()
			return nil, fmt.Errorf("the listener is not visible in /proc/net/tcp")
		}
		for i := 0; i < 8 && !b.settledFull(); i++ {
			c, err := net.DialTimeout("tcp", b.Addr, 3*time.Second)
			if err != nil {
				break // dropped already: the check below decides
			}
			b.fill = append(b.fill, c)
		}
		if full, _ := b.queue(); !full {
			b.Close()
			return nil, fmt.Errorf("the accept queue of a listen(fd, 0) socket does not fill up on this kernel")
		}
		return b, nil
	}
}

// settledFull gives the kernel a moment to queue the last completed handshake before the queue is judged not full.
func (b *Blackhole) settledFull() bool {
	for i := 0; i < 40; i++ {
		if full, _ := b.queue(); full {
			return true
		}
		if len(b.fill) == 0 {
			return false
		}
		time.Sleep(5 * time.Millisecond)
	}
	return false
}

func procNetTCP(f func(local, remote, state, queues string)) bool {
	fh, err := os.Open("/proc/net/tcp")
	if err != nil {
		return false
	}
	defer fh.Close()
	sc := bufio.NewScanner(fh)
	sc.Buffer(make([]byte, 1<<16), 1<<20)
	for sc.Scan() {
		fl := strings.Fields(sc.Text())
		if len(fl) < 5 || !strings.Contains(fl[1], ":") {
			continue
		}
		f(fl[1], fl[2], fl[3], fl[4])
	}
	return true
}

func hexPort(a string) int {
	i := strings.LastIndexByte(a, ':')
	if i < 0 {
		return -1
	}
	p, err := strconv.ParseInt(a[i+1:], 16, 32)
	if err != nil {
		return -1
	}
	return int(p)
}

// queue reports whether the accept queue is full (for a listening socket /proc/net/tcp shows the number of queued
// connections as rx_queue and the limit as tx_queue) and whether the listener was found at all.
func (b *Blackhole) queue() (full, found bool) {
	procNetTCP(func(local, remote, state, queues string) {
		if state != "0A" || hexPort(local) != b.Port || !strings.HasPrefix(local, "0100007F:") {
			return
		}
		q := strings.Split(queues, ":")
		if len(q) != 2 {
			return
		}
		tx, e1 := strconv.ParseInt(q[0], 16, 64)
		rx, e2 := strconv.ParseInt(q[1], 16, 64)
		if e1 == nil && e2 == nil {
			found, full = true, rx > tx
		}
	})
	return
}

// Pending returns the local ports of the connection attempts to the black hole that are under way (SYN sent, no answer).
func (b *Blackhole) Pending() map[int]bool {
	out := map[int]bool{}
	procNetTCP(func(local, remote, state, queues string) {
		if state == "02" && hexPort(remote) == b.Port && strings.HasPrefix(remote, "0100007F:") {
			out[hexPort(local)] = true
		}
	})
	return out
}

func (b *Blackhole) Close() {
	if !atomic.CompareAndSwapInt32(&b.closed, 0, 1) {
		return
	}
	for _, c := range b.fill {
		c.Close()
	}
	syscall.Close(b.fd)
}

// SlowKit is a pair of extra channels whose targets can be kept from accepting: GateName (a recording, tagged target
// behind a Gate) and HoleName (a Blackhole; absent when the kernel does not provide one: Hole == nil).
type SlowKit struct {
	GateName, HoleName string
	Gate               *Gate
	GateTarget         *Target
	Hole               *Blackhole
	HoleErr            error
}

func NewSlowKit(gateName, holeName, tag string) (*SlowKit, error) {
	k := &SlowKit{GateName: gateName, HoleName: holeName, Gate: NewGate()}
	var err error
	if k.GateTarget, err = NewTarget(gateName, "unix", sockName("t", tag), true); err != nil {
		return nil, err
	}
	k.Hole, k.HoleErr = NewBlackhole()
	return k, nil
}

// Channels are the ChanSpecs to append to Options.Channels.
func (k *SlowKit) Channels() []ChanSpec {
	out := []ChanSpec{{Name: k.GateName, Custom: k.Gate.Channel(&server.NetworkChannel{AbstractChannel: server.AbstractChannel{
		ProtoName: addr.ProtoName{Name: k.GateName}, Address: addr.MustParseAddress(k.GateTarget.URL())}})}}
	if k.Hole != nil {
		out = append(out, ChanSpec{Name: k.HoleName, Custom: &server.NetworkChannel{AbstractChannel: server.AbstractChannel{
			ProtoName: addr.ProtoName{Name: k.HoleName}, Address: addr.MustParseAddress("tcp://" + k.Hole.Addr)}}})
	}
	return out
}

func (k *SlowKit) Close() {
	k.Gate.Release()
	k.GateTarget.Close()
	if k.Hole != nil {
		k.Hole.Close()
	}
}
