package e2e

import "sync"

var c05ExtraOnce sync.Once
var c05Extra []string

// C05ExtraCAs returns (PEM) two further run-time certificate authorities that issue nothing: they are what a CA
// bundle (caCertificate / caCertificateFile with several certificates) contains besides CA one. Neither is in the
// machine's trust store of the C05 monitor, and no peer of the run holds a certificate of theirs.
func C05ExtraCAs() []string {
	c05ExtraOnce.Do(func() {
		c05Extra = []string{newCA("verif C05 CA three").pem, newCA("verif C05 CA four").pem}
	})
	return c05Extra
}
