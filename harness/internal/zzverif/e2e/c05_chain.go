package e2e

import (
	"crypto/ecdsa"
	"crypto/elliptic"
	"crypto/rand"
	"crypto/x509"
	"crypto/x509/pkix"
	"encoding/pem"
	"net"
	"sync"
	"time"
)

// C05ChainPKI is the part of the C05 certificate set that needs certificate CHAINS: one intermediate authority
// under each of the two CAs of C05PKI, and the server / client certificates of C05PKI once more, issued by the
// intermediate of the same CA instead of by the CA itself. CertPair.Cert holds the leaf only; the harness decides
// what else the endpoint's certificate file carries.
type C05ChainPKI struct {
	Inter1, Inter2 string // PEM: intermediate under CA one / under CA two (the foreign CA)
	// Server: the names of C05PKI.Server; every certificate is issued by Inter1, "Untrusted" by Inter2
	Server map[string]CertPair
	// Client: "own" (Inter1), "foreign" (Inter2)
	Client map[string]CertPair
}

var c05ChainOnce sync.Once
var c05chain *C05ChainPKI

func newIntermediate(parent *ca, cn string) *ca {
	key, _ := ecdsa.GenerateKey(elliptic.P256(), rand.Reader)
	tpl := &x509.Certificate{
		SerialNumber: nextSerial(), Subject: pkix.Name{CommonName: cn, Organization: []string{"verif"}},
		NotBefore: time.Now().Add(-36 * time.Hour), NotAfter: time.Now().Add(5 * 365 * 24 * time.Hour),
		IsCA: true, BasicConstraintsValid: true, KeyUsage: x509.KeyUsageCertSign | x509.KeyUsageDigitalSignature,
	}
	der, err := x509.CreateCertificate(rand.Reader, tpl, parent.cert, &key.PublicKey, parent.key)
	if err != nil {
		panic(err)
	}
	cert, _ := x509.ParseCertificate(der)
	return &ca{cert, key, string(pem.EncodeToMemory(&pem.Block{Type: "CERTIFICATE", Bytes: der}))}
}

// GetC05ChainPKI generates the chain part of the C05 certificate set once per process.
func GetC05ChainPKI() *C05ChainPKI {
	c05ChainOnce.Do(func() {
		GetC05PKI()
		i1, i2 := newIntermediate(c05ca1, "verif C05 intermediate of CA one"), newIntermediate(c05ca2, "verif C05 intermediate of CA two")
		now := time.Now()
		from, to := now.Add(-24*time.Hour), now.Add(365*24*time.Hour)
		names := []string{"localhost", C05Domain}
		lo := []net.IP{net.IPv4(127, 0, 0, 1), net.IPv6loopback}
		c05chain = &C05ChainPKI{
			Inter1: i1.pem, Inter2: i2.pem,
			Server: map[string]CertPair{
				"Good":      i1.issue("localhost", names, lo, false, from, to),
				"GoodDNS":   i1.issue("localhost", names, nil, false, from, to),
				"IPOnly":    i1.issue("loopback", nil, lo, false, from, to),
				"WrongHost": i1.issue("other.example.net", []string{"other.example.net"}, []net.IP{net.IPv4(192, 0, 2, 7)}, false, from, to),
				"Untrusted": i2.issue("localhost", names, lo, false, from, to),
				"Expired":   i1.issue("localhost", names, lo, false, now.Add(-72*time.Hour), now.Add(-24*time.Hour)),
			},
			Client: map[string]CertPair{
				"own":     i1.issue("client one", nil, nil, true, from, to),
				"foreign": i2.issue("client two", nil, nil, true, from, to),
			},
		}
	})
	return c05chain
}
