package e2e

import (
	"fmt"

	"github.com/bokysan/socketace/v2/internal/client/listener"
	"github.com/bokysan/socketace/v2/internal/client/upstream"
	clientCmd "github.com/bokysan/socketace/v2/internal/commands/client"
	"github.com/bokysan/socketace/v2/internal/util/addr"
	"github.com/bokysan/socketace/v2/internal/util/cert"
)

// C05AttachClient starts the real client command for a pair that was started with NoClient, with an
// upstream list and a client configuration chosen by the caller (Options cannot express "the server has
// a secret and the client has none": an empty ClientSecret defaults to the server's). One unix-socket
// listener per channel, as Start does; Dial/Open/Close work afterwards.
func (p *Pair) C05AttachClient(ups []upstream.Upstream, ccfg cert.ClientConfig, secure bool) error {
	if p.Client != nil {
		return fmt.Errorf("pair already has a client")
	}
	var lastErr error
	for attempt := 0; attempt < 8; attempt++ {
		var ll listener.Listeners
		for _, cs := range p.Opt.Channels {
			al := listener.AbstractListener{ProtoName: addr.ProtoName{Name: cs.Name}}
			a := sockName("l", p.Opt.Tag)
			al.Address = addr.MustParseAddress("unix://" + a)
			p.listenNet[cs.Name], p.listenAdr[cs.Name] = "unix", a
			ll = append(ll, &listener.SocketListener{AbstractListener: al})
		}
		p.Client = &clientCmd.Command{ClientConfig: ccfg, ListenList: ll, Upstream: upstream.Upstreams{Data: ups}, Secure: secure}
		lastErr = p.Client.Startup(p.intr)
		if lastErr == nil {
			if len(ups) > 0 {
				p.Up = ups[0]
			}
			return nil
		}
		p.Client.Shutdown()
		p.Client = nil
		if !isBindErr(lastErr) {
			break
		}
	}
	return fmt.Errorf("client startup: %v", lastErr)
}
