package e2e

import (
	"net"
	"sync"
	"time"
)

// C05PKI is the certificate set of the C05 monitor. It differs from PKI in that every server
// certificate deviates from "acceptable" in exactly ONE respect on every carrier (the DNS carrier is
// verified against the tunnel domain, so all certificates that are meant to match carry it too).
type C05PKI struct {
	CA1, CA2 string
	// Server certificates by name:
	//   Good      CA1, valid, DNS localhost + t.example.org, IP 127.0.0.1 + ::1
	//   GoodDNS   CA1, valid, DNS localhost + t.example.org, no IP SAN      (valid for the host NAME only)
	//   IPOnly    CA1, valid, IP 127.0.0.1 + ::1, no DNS SAN                (valid for the ADDRESS only)
	//   WrongHost CA1, valid, DNS other.example.net, IP 192.0.2.7
	//   Untrusted CA2, valid, SANs as Good
	//   Expired   CA1, SANs as Good, expired yesterday
	Server map[string]CertPair
	// Client certificates: "own" (CA1), "foreign" (CA2)
	Client map[string]CertPair
}

// C05Domain is the tunnel domain of DNS cases.
const C05Domain = "t.example.org"

var c05Once sync.Once
var c05pki *C05PKI
var c05ca1, c05ca2 *ca

// GetC05PKI generates the C05 certificate set once per process.
func GetC05PKI() *C05PKI {
	c05Once.Do(func() {
		c1, c2 := newCA("verif C05 CA one"), newCA("verif C05 CA two")
		c05ca1, c05ca2 = c1, c2 // (kept for C05ChainPKI, c05_chain.go)
		now := time.Now()
		from, to := now.Add(-24*time.Hour), now.Add(365*24*time.Hour)
		names := []string{"localhost", C05Domain}
		lo := []net.IP{net.IPv4(127, 0, 0, 1), net.IPv6loopback}
		c05pki = &C05PKI{
			CA1: c1.pem, CA2: c2.pem,
			Server: map[string]CertPair{
				"Good":      c1.issue("localhost", names, lo, false, from, to),
				"GoodDNS":   c1.issue("localhost", names, nil, false, from, to),
				"IPOnly":    c1.issue("loopback", nil, lo, false, from, to),
				"WrongHost": c1.issue("other.example.net", []string{"other.example.net"}, []net.IP{net.IPv4(192, 0, 2, 7)}, false, from, to),
				"Untrusted": c2.issue("localhost", names, lo, false, from, to),
				"Expired":   c1.issue("localhost", names, lo, false, now.Add(-72*time.Hour), now.Add(-24*time.Hour)),
			},
			Client: map[string]CertPair{
				"own":     c1.issue("client one", nil, nil, true, from, to),
				"foreign": c2.issue("client two", nil, nil, true, from, to),
			},
		}
	})
	return c05pki
}
