package e2e

import (
	"fmt"
	"net"
	"syscall"

	"github.com/bokysan/socketace/v2/internal/server"
	"github.com/bokysan/socketace/v2/internal/util/addr"
)

// C14Refuser reserves a loopback TCP port on which nobody listens: the socket is bound and never put into the
// listening state, so every connection attempt is refused by the kernel at once, and no other process can take
// the port while the fixture lives (a port that was merely free a moment ago can be taken by anybody).
type C14Refuser struct {
	fd   int
	Addr string // 127.0.0.1:port
}

// NewC14Refuser binds the port and checks that a connection attempt is really refused.
func NewC14Refuser() (*C14Refuser, error) {
	for attempt := 0; attempt < 64; attempt++ {
		fd, err := syscall.Socket(syscall.AF_INET, syscall.SOCK_STREAM|syscall.SOCK_CLOEXEC, 0)
		if err != nil {
			return nil, err
		}
		if err := syscall.Bind(fd, &syscall.SockaddrInet4{Port: 0, Addr: [4]byte{127, 0, 0, 1}}); err != nil {
			syscall.Close(fd)
			return nil, err
		}
		sa, err := syscall.Getsockname(fd)
		if err != nil {
			syscall.Close(fd)
			return nil, err
		}
		port := sa.(*syscall.SockaddrInet4).Port
		if port >= 40900 && port <= 42100 { // the repository's own tests use fixed ports in this range
			syscall.Close(fd)
			continue
		}
		r := &C14Refuser{fd: fd, Addr: fmt.Sprintf("127.0.0.1:%d", port)}
		c, err := net.Dial("tcp", r.Addr)
		if err == nil {
			c.Close()
			r.Close()
			return nil, fmt.Errorf("a bound socket that does not listen accepted a connection on %s", r.Addr)
		}
		return r, nil
	}
	return nil, fmt.Errorf("no usable port")
}

// URL is the channel address of the port that refuses.
func (r *C14Refuser) URL() string { return "tcp://" + r.Addr }

// Close gives the port back.
func (r *C14Refuser) Close() {
	if r.fd >= 0 {
		syscall.Close(r.fd)
		r.fd = -1
	}
}

// C14Channel is a network channel of the given name for the given target address (tcp://host:port or
// unix://name); nothing is created at the address.
func C14Channel(name, url string) server.Channel {
	return &server.NetworkChannel{AbstractChannel: server.AbstractChannel{
		ProtoName: addr.ProtoName{Name: name}, Address: addr.MustParseAddress(url)}}
}
