package e2e

// C15 extension of the fixture: additional REAL clients against the server of a running Pair
// (each with its own client command, its own upstream object and its own unix-socket listeners)
// and a tagged "next connection" wait that can be aborted by the caller.

import (
	"fmt"
	"net"
	"strings"
	"sync"

	"github.com/bokysan/socketace/v2/internal/client/listener"
	"github.com/bokysan/socketace/v2/internal/client/upstream"
	clientCmd "github.com/bokysan/socketace/v2/internal/commands/client"
	"github.com/bokysan/socketace/v2/internal/util/addr"
	"github.com/bokysan/socketace/v2/internal/util/cert"
)

// RecordingUpstream delegates everything to the real upstream object and remembers what
// Connect returned (the client command only logs it).
type RecordingUpstream struct {
	upstream.Upstream
	mu       sync.Mutex
	Connects int
	Errs     []string
}

func (r *RecordingUpstream) Connect(manager cert.TlsConfig, mustSecure bool) error {
	err := r.Upstream.Connect(manager, mustSecure)
	r.mu.Lock()
	r.Connects++
	if err != nil {
		r.Errs = append(r.Errs, err.Error())
	}
	r.mu.Unlock()
	return err
}

// ConnectErrors returns the errors the real upstream's Connect has returned so far.
func (r *RecordingUpstream) ConnectErrors() []string {
	r.mu.Lock()
	defer r.mu.Unlock()
	return append([]string(nil), r.Errs...)
}

func (r *RecordingUpstream) String() string { return fmt.Sprint(r.Upstream) }

// ExtraClient is one more real client command connected to the Pair's server.
type ExtraClient struct {
	Cmd       *clientCmd.Command
	Up        *RecordingUpstream
	listenAdr map[string]string
	pair      *Pair
}

// NewUpstream builds a fresh upstream object of the Pair's carrier kind for its server (the
// same construction as in Start).
func (p *Pair) NewUpstream() upstream.Upstream {
	base := strings.Split(p.Opt.Carrier, "+")[0]
	a := addr.MustParseAddress(p.UpURL)
	switch base {
	case "tcp", "unix":
		return &upstream.Socket{Address: a}
	case "ws", "wss":
		return &upstream.Http{Address: a}
	case "udp":
		return &upstream.Packet{Address: a}
	case "dns":
		return &upstream.Dns{Address: a}
	}
	return nil
}

// NewClient starts one more real client (own command, own upstream object, unix listeners).
func (p *Pair) NewClient(tag string) (*ExtraClient, error) {
	up := p.NewUpstream()
	if up == nil {
		return nil, fmt.Errorf("no extra client for carrier %s", p.Opt.Carrier)
	}
	o := p.Opt
	ccfg := cert.ClientConfig{InsecureSkipVerify: o.ClientInsecure}
	ccfg.CaCertificate = o.ClientCA
	if o.ClientCert != nil {
		ccfg.Certificate, ccfg.PrivateKey = o.ClientCert.Cert, o.ClientCert.Key
	}
	ec := &ExtraClient{Up: &RecordingUpstream{Upstream: up}, listenAdr: map[string]string{}, pair: p}
	var ll listener.Listeners
	for _, cs := range o.Channels {
		a := sockName("x"+tag, o.Tag)
		al := listener.AbstractListener{ProtoName: addr.ProtoName{Name: cs.Name}}
		al.Address = addr.MustParseAddress("unix://" + a)
		ec.listenAdr[cs.Name] = a
		ll = append(ll, &listener.SocketListener{AbstractListener: al})
	}
	ec.Cmd = &clientCmd.Command{ClientConfig: ccfg, ListenList: ll, Upstream: upstream.Upstreams{Data: []upstream.Upstream{ec.Up}}, Secure: o.ClientSecure}
	if err := ec.Cmd.Startup(p.intr); err != nil {
		ec.Cmd.Shutdown()
		return nil, fmt.Errorf("extra client startup: %v", err)
	}
	return ec, nil
}

// Dial opens a local application connection to this client's listener of the channel.
func (ec *ExtraClient) Dial(channel string) (net.Conn, error) {
	return net.Dial("unix", ec.listenAdr[channel])
}

// Close shuts the client down.
func (ec *ExtraClient) Close() {
	if ec.Cmd != nil {
		ec.Cmd.Shutdown()
	}
}

// NextTaggedOr is NextTagged that also returns (aborted = true) as soon as abort is closed.
func (t *Target) NextTaggedOr(tag uint64, abort <-chan struct{}) (c net.Conn, o Outcome, aborted bool) {
	ch := t.tagChan(tag)
	type res struct {
		c       net.Conn
		aborted bool
	}
	rc := make(chan res, 1)
	done := Go(func() {
		select {
		case x := <-ch:
			rc <- res{c: x}
		case <-abort:
			rc <- res{aborted: true}
		}
	})
	o = Wait(done)
	if o == Done {
		r := <-rc
		return r.c, o, r.aborted
	}
	return nil, o, false
}
