package e2e

// C16 extension of the fixture (client connection policy): endpoints = a REAL socketace server with
// its OWN recording target and a connection-counting relay in front; scripted failing upstream
// endpoints (refused / silent / handshake error); a client command built over an arbitrary list of
// upstreams with an optional forward address; an upstream wrapper that records the order of the
// client's Connect calls (diagnostic only) and a stall wait over a case-local progress counter.

import (
	"bufio"
	"crypto/tls"
	"fmt"
	"net"
	"net/http"
	"net/textproto"
	"os"
	"runtime"
	"strings"
	"sync"
	"sync/atomic"
	"syscall"
	"time"

	"github.com/bokysan/socketace/v2/internal/client/listener"
	"github.com/bokysan/socketace/v2/internal/client/upstream"
	clientCmd "github.com/bokysan/socketace/v2/internal/commands/client"
	serverCmd "github.com/bokysan/socketace/v2/internal/commands/server"
	"github.com/bokysan/socketace/v2/internal/server"
	"github.com/bokysan/socketace/v2/internal/socketace"
	"github.com/bokysan/socketace/v2/internal/streams"
	"github.com/bokysan/socketace/v2/internal/util/addr"
	"github.com/bokysan/socketace/v2/internal/util/cert"
	"github.com/gorilla/websocket"
	mdns "github.com/miekg/dns"
	"github.com/xtaci/kcp-go/v5"
)

// C16Kinds are the upstream kinds of the C16 workload.
var C16Kinds = []string{"tcp", "tcp+tls", "ws", "udp"}

// C16Spellings: the schemes an upstream address of a kind may be written with (the first one is the default,
// used when no spelling is asked for). "wss" is a web-socket endpoint behind a TLS listener (https).
var C16Spellings = map[string][]string{"tcp": {"tcp"}, "tcp+tls": {"tcp+tls"}, "ws": {"http", "ws"}, "wss": {"https", "wss"}, "udp": {"udp", "udp4"}}

func c16Scheme(kind, spelling string) string {
	if spelling != "" {
		return spelling
	}
	if l := C16Spellings[kind]; len(l) > 0 {
		return l[0]
	}
	return kind
}

// C16Secret is the pre-shared key of the "udp+secret" kind (a KCP endpoint whose datagrams are AES-encrypted).
const C16Secret = "c16-shared-secret"

func c16IsUDP(kind string) bool { return kind == "udp" || kind == "udp+secret" || kind == "dns" }

var c16DNSSeq int64

func c16UDPURL(kind, hostport string) string {
	if kind == "udp+secret" {
		return "udp://u:" + C16Secret + "@" + hostport
	}
	return "udp://" + hostport
}

// C16Banner pads a name to the 8 bytes every C16 target sends first on an accepted connection.
func C16Banner(name string) []byte { return []byte(fmt.Sprintf("%-8.8s", name)) }

// Progress is the current value of the global progress counter of the stall rule.
func Progress() int64 { return atomic.LoadInt64(&progress) }

// C16WaitLocal waits for done. It returns Stalled only when the case-local progress (local()) did not
// move for `window` AND nothing moved anywhere in the process for the stall window W; Inconclusive when
// the process was busy meanwhile.
func C16WaitLocal(done <-chan struct{}, local func() int64, window time.Duration) Outcome {
	return C16WaitLocalBusy(done, local, window, nil)
}

// C16WaitLocalBusy is C16WaitLocal with a witness for the busy case: when the windows have run out while the
// process burns CPU, sutSpins (if given) is asked whether there is positive evidence that it is the system under
// test going round in circles (e.g. a scripted endpoint that has been contacted thousands of times over by the
// one attempt that is still running). Only then the answer is Stalled instead of Inconclusive.
func C16WaitLocalBusy(done <-chan struct{}, local func() int64, window time.Duration, sutSpins func() bool) Outcome {
	w := StallWindow()
	if window < w {
		window = w
	}
	lastL, lastLT := local(), time.Now()
	lastG, lastGT := Progress(), time.Now()
	ticks := cpuTicks()
	t := time.NewTicker(50 * time.Millisecond)
	defer t.Stop()
	for {
		select {
		case <-done:
			return Done
		case <-t.C:
		}
		now := time.Now()
		if l := local(); l != lastL {
			lastL, lastLT, ticks = l, now, cpuTicks()
		}
		if g := Progress(); g != lastG {
			lastG, lastGT = g, now
		}
		if now.Sub(lastLT) > window && now.Sub(lastGT) > w {
			el := now.Sub(lastLT).Seconds()
			used := float64(cpuTicks()-ticks) / 100.0
			if used > el*0.5 && (sutSpins == nil || !sutSpins()) {
				return Inconclusive
			}
			return Stalled
		}
	}
}

// ---- a real endpoint -------------------------------------------------------------------------

// C16Endpoint is a real socketace server of one kind with its own target ("who served" = the
// banner / the accept counter of this target) and a relay in front that counts physical connections.
type C16Endpoint struct {
	Kind     string
	Name     string
	WithCert bool
	Target   *Target
	Server   *serverCmd.Command
	SrvAddr  string // host:port the server listens on
	Relay    *Relay
	UDPRelay *UDPRelay
	intr     chan os.Signal
	mu       sync.Mutex
	Domain   string // dns: the tunnel domain of this endpoint (miekg's handler table is process-wide: one domain per endpoint)
	// Host: how the upstream URL spells this endpoint and what its certificate is valid for: "" = 127.0.0.1 with a
	// certificate for both spellings, "localhost" = by name with a certificate for the name only, "ip" = 127.0.0.1
	// with a certificate for 127.0.0.1 only, "ip6" = server and relay listen on ::1, the URL says [::1]:port, the
	// certificate is valid for ::1 only
	// with a certificate for the addresses only.
	Host string
	// Scheme: how the upstream URL spells the scheme ("" = the default spelling of the kind, see C16Spellings)
	Scheme string
}

// C16SpellHost rewrites the loopback address of a host:port for the chosen spelling.
func C16SpellHost(hostport, host string) string {
	if host == "localhost" {
		return strings.Replace(hostport, "127.0.0.1", "localhost", 1)
	}
	return hostport
}

// NewC16EndpointHost is NewC16Endpoint with a host spelling (see C16Endpoint.Host).
func NewC16EndpointHost(kind, name string, withCert bool, host string) (*C16Endpoint, error) {
	c16HostMu.Lock()
	defer c16HostMu.Unlock()
	c16NextHost = host
	defer func() { c16NextHost = "" }()
	return NewC16Endpoint(kind, name, withCert)
}

var c16HostMu sync.Mutex
var c16NextHost string

// ---- IPv6 loopback, host-specific certificates ------------------------------------------------------

var c16v6Once sync.Once
var c16v6 bool

// C16HasIPv6Loopback probes once whether this machine has a usable ::1 (tcp and udp).
func C16HasIPv6Loopback() bool {
	c16v6Once.Do(func() {
		l, err := net.Listen("tcp", "[::1]:0")
		if err != nil {
			return
		}
		defer l.Close()
		c, err := net.Dial("tcp", l.Addr().String())
		if err != nil {
			return
		}
		c.Close()
		pc, err := net.ListenPacket("udp", "[::1]:0")
		if err != nil {
			return
		}
		pc.Close()
		c16v6 = true
	})
	return c16v6
}

// c16Loop is the loopback address (as written in a host:port) of a host spelling.
func c16Loop(host string) string {
	if host == "ip6" {
		return "[::1]"
	}
	return "127.0.0.1"
}

// c16FreePort is FreePort for the loopback of a host spelling.
func c16FreePort(host string, udp bool) int {
	if host != "ip6" {
		return FreePort(udp)
	}
	for {
		p := 0
		if udp {
			pc, err := net.ListenPacket("udp", "[::1]:0")
			if err != nil {
				return 0
			}
			p = pc.LocalAddr().(*net.UDPAddr).Port
			pc.Close()
		} else {
			l, err := net.Listen("tcp", "[::1]:0")
			if err != nil {
				return 0
			}
			p = l.Addr().(*net.TCPAddr).Port
			l.Close()
		}
		if p < 40900 || p > 42100 {
			return p
		}
	}
}

// C16Certs: server certificates that are valid for ONE spelling of the loopback address only, from a CA of
// their own (the client of the C16 workload trusts CA1 and this one).
type C16Certs struct {
	CA     string
	V4, V6 CertPair // IP SAN 127.0.0.1 only / IP SAN ::1 only
}

var c16CertsOnce sync.Once
var c16Certs *C16Certs

func C16PKI() *C16Certs {
	c16CertsOnce.Do(func() {
		c := newCA("verif C16 CA")
		now := time.Now()
		from, to := now.Add(-24*time.Hour), now.Add(365*24*time.Hour)
		c16Certs = &C16Certs{CA: c.pem,
			V4: c.issue("127.0.0.1", nil, []net.IP{net.IPv4(127, 0, 0, 1)}, false, from, to),
			V6: c.issue("::1", nil, []net.IP{net.IPv6loopback}, false, from, to)}
	})
	return c16Certs
}

// c16RelayOn is NewRelay("tcp", upstream, "") with the listener on the loopback of a host spelling.
func c16RelayOn(host, upstream string) (*Relay, error) {
	if host != "ip6" {
		return NewRelay("tcp", upstream, "")
	}
	r := &Relay{network: "tcp", upstream: upstream, capLimit: 8 << 20}
	for {
		ln, err := net.Listen("tcp", "[::1]:0")
		if err != nil {
			return nil, err
		}
		if p := ln.Addr().(*net.TCPAddr).Port; p < 40900 || p > 42100 {
			r.ln, r.Addr = ln, ln.Addr().String()
			break
		}
		ln.Close()
	}
	go r.loop()
	return r, nil
}

// c16UDPRelayOn is NewUDPRelay with the socket on the loopback of a host spelling.
func c16UDPRelayOn(host, server string) (*UDPRelay, error) {
	if host != "ip6" {
		return NewUDPRelay(server)
	}
	sa, err := net.ResolveUDPAddr("udp", server)
	if err != nil {
		return nil, err
	}
	pc, err := net.ListenPacket("udp", "[::1]:0")
	if err != nil {
		return nil, err
	}
	r := &UDPRelay{Addr: pc.LocalAddr().String(), pc: pc, server: sa, peers: map[string]*net.UDPConn{}}
	go r.loop()
	return r, nil
}

// NewC16Endpoint starts target, server and relay. withCert: the server has a certificate (it offers
// StartTLS; tcp+tls always has one).
func NewC16Endpoint(kind, name string, withCert bool) (*C16Endpoint, error) {
	e := &C16Endpoint{Kind: kind, Name: name, WithCert: withCert || kind == "tcp+tls" || kind == "wss", intr: make(chan os.Signal, 1), Host: c16NextHost}
	t, err := NewTarget(name, "tcp", "", true)
	if err != nil {
		return nil, err
	}
	t.Banner = C16Banner(name)
	e.Target = t
	if kind == "dns" {
		e.Domain = fmt.Sprintf("t%d.c16.example.org", atomic.AddInt64(&c16DNSSeq, 1))
	}
	var lastErr error
	for attempt := 0; attempt < 8; attempt++ {
		e.SrvAddr = fmt.Sprintf("%s:%d", c16Loop(e.Host), c16FreePort(e.Host, c16IsUDP(kind)))
		lastErr = e.StartServer()
		if lastErr == nil || !isBindErr(lastErr) {
			break
		}
	}
	if lastErr != nil {
		e.Close()
		return nil, fmt.Errorf("c16 endpoint %s/%s: %v", kind, name, lastErr)
	}
	if c16IsUDP(kind) {
		e.UDPRelay, err = c16UDPRelayOn(e.Host, e.SrvAddr)
	} else {
		e.Relay, err = c16RelayOn(e.Host, e.SrvAddr)
	}
	if err != nil {
		e.Close()
		return nil, err
	}
	return e, nil
}

// StartServer starts a (new) server command on SrvAddr.
func (e *C16Endpoint) StartServer() error {
	pk := GetPKI()
	cfg := cert.ServerConfig{}
	if e.WithCert {
		cfg.Certificate, cfg.PrivateKey = pk.Good.Cert, pk.Good.Key
		switch e.Host {
		case "localhost":
			cfg.Certificate, cfg.PrivateKey = pk.GoodDNS.Cert, pk.GoodDNS.Key
		case "ip":
			cfg.Certificate, cfg.PrivateKey = C16PKI().V4.Cert, C16PKI().V4.Key
		case "ip6":
			cfg.Certificate, cfg.PrivateKey = C16PKI().V6.Cert, C16PKI().V6.Key
		}
	}
	cfg.CaCertificate = pk.CA1
	channels := server.Channels{&server.NetworkChannel{AbstractChannel: server.AbstractChannel{
		ProtoName: addr.ProtoName{Name: "echo"}, Address: addr.MustParseAddress(e.Target.URL())}}}
	var srv server.Server
	switch e.Kind {
	case "tcp", "tcp+tls":
		s := server.NewSocketServer()
		s.Address, s.ServerConfig = addr.MustParseAddress(e.Kind+"://"+e.SrvAddr), cfg
		srv = s
	case "ws", "wss":
		s := server.NewHttpServer()
		s.Address, s.ServerConfig = addr.MustParseAddress(C16Spellings[e.Kind][0]+"://"+e.SrvAddr), cfg
		s.Endpoints = server.WebsocketEndpointList{{Endpoint: "/ws/all"}}
		srv = s
	case "dns":
		s := server.NewDnsServer()
		s.Address, s.ServerConfig, s.Domain = addr.MustParseAddress("dns://"+e.SrvAddr), cfg, e.Domain
		srv = s
	case "udp", "udp+secret":
		s := server.NewPacketServer()
		s.Address, s.ServerConfig = addr.MustParseAddress(c16UDPURL(e.Kind, e.SrvAddr)), cfg
		srv = s
	default:
		return fmt.Errorf("c16: unknown kind %q", e.Kind)
	}
	cmd := &serverCmd.Command{Channels: channels, Servers: server.Servers{srv}}
	if err := cmd.Startup(e.intr); err != nil {
		cmd.Shutdown()
		return err
	}
	e.mu.Lock()
	e.Server = cmd
	e.mu.Unlock()
	if e.Relay != nil {
		e.Relay.SetDown(false)
	}
	return nil
}

// RestartServer starts a new server on the same address (retrying while the old socket lingers).
func (e *C16Endpoint) RestartServer() error {
	var err error
	for i := 0; i < 50; i++ {
		if err = e.StartServer(); err == nil || !isBindErr(err) {
			return err
		}
		time.Sleep(100 * time.Millisecond)
	}
	return err
}

// StopServer shuts the server command down (listener gone). The sessions it had are ended by the
// caller through the relay (CutAll), as the operating system does when a server process exits.
func (e *C16Endpoint) StopServer() {
	if e.Relay != nil {
		e.Relay.SetDown(true)
	}
	e.mu.Lock()
	s := e.Server
	e.Server = nil
	e.mu.Unlock()
	if s != nil {
		done := Go(func() { s.Shutdown() })
		select {
		case <-done:
		case <-time.After(10 * time.Second):
		}
	}
}

// CutAll cuts every relayed physical connection (FIN or RST). Not available for udp.
func (e *C16Endpoint) CutAll(rst bool) int {
	if e.Relay == nil {
		return 0
	}
	n := 0
	for _, l := range e.Relay.Links() {
		if rst {
			l.CutRST()
		} else {
			l.CutFIN()
		}
		n++
	}
	return n
}

// SetBlackHole makes the relay swallow everything.
func (e *C16Endpoint) SetBlackHole(on bool) {
	if e.Relay != nil {
		e.Relay.SetBlackHole(on)
	}
	if e.UDPRelay != nil {
		e.UDPRelay.SetBlackHole(on)
	}
}

// Physical is the number of physical connections clients have made to this endpoint so far.
func (e *C16Endpoint) Physical() int64 {
	if e.UDPRelay != nil {
		return int64(e.UDPRelay.Peers())
	}
	if e.Relay != nil {
		return e.Relay.ConnCount()
	}
	return 0
}

// URL is the upstream address a client uses for this endpoint (the relay's address).
func (e *C16Endpoint) URL() string {
	switch e.Kind {
	case "ws", "wss":
		return c16Scheme(e.Kind, e.Scheme) + "://" + C16SpellHost(e.Relay.Addr, e.Host) + "/ws/all"
	case "dns":
		return "dns://" + e.Domain + "?direct=false&dns=" + e.UDPRelay.Addr
	case "udp", "udp+secret":
		u := c16UDPURL(e.Kind, C16SpellHost(e.UDPRelay.Addr, e.Host))
		if e.Scheme != "" {
			u = e.Scheme + strings.TrimPrefix(u, "udp")
		}
		return u
	}
	return e.Kind + "://" + C16SpellHost(e.Relay.Addr, e.Host)
}

func (e *C16Endpoint) Close() {
	e.StopServer()
	if e.Relay != nil {
		e.Relay.Close()
	}
	if e.UDPRelay != nil {
		e.UDPRelay.Close()
	}
	if e.Target != nil {
		e.Target.Close()
	}
}

// C16Upstream builds the client's upstream object for an address.
func C16Upstream(url string) upstream.Upstream {
	// the way the command line and the configuration file turn an address into an upstream object
	var l upstream.Upstreams
	if err := l.UnmarshalFlag(url); err == nil && len(l.Data) == 1 {
		return l.Data[0]
	}
	a := addr.MustParseAddress(url)
	switch {
	case strings.HasPrefix(url, "http"):
		return &upstream.Http{Address: a}
	case strings.HasPrefix(url, "udp"):
		return &upstream.Packet{Address: a}
	case strings.HasPrefix(url, "dns"):
		return &upstream.Dns{Address: a}
	}
	return &upstream.Socket{Address: a}
}

// ---- scripted failing endpoints ----------------------------------------------------------------

// C16Scripted is an upstream endpoint that fails in a scripted manner:
//
//	refused      nothing listens (tcp: a bound socket that never listens, so the port cannot be taken by anyone else)
//	silent       accepts (udp: receives) and never answers — for ever
//	silent-inner completes the carrier's own handshake (TLS / websocket upgrade) and then never answers
//	silent-after-200   answers the announce request with a valid "200" (inside the carrier's own TLS / websocket
//	             handshake where there is one) and then never answers the upgrade request
//	silent-in-starttls answers "200" advertising StartTLS, answers the upgrade request with "101" and then never
//	             says a word of the TLS handshake the client starts
//	hs-400       reads the request and answers "400 Bad Request" (tcp+tls, wss: inside TLS), then closes
//	hs-garbage   answers bytes that are no response at all, then closes
//	hs-close     closes at once
type C16Scripted struct {
	Host         string // spelling of the host in the URL ("localhost" or "" = 127.0.0.1)
	Scheme       string // spelling of the scheme in the URL ("" = the default spelling of the kind)
	Kind, Manner string
	Addr         string
	accepts      int64
	ln           net.Listener
	pc           net.PacketConn
	fd           int
	mu           sync.Mutex
	held         []net.Conn
	peers        map[string]bool
	srv          *http.Server
	closed       int32
	// kind "dns": a DNS-tunnel upstream none of whose resolver candidates lets the tunnel through
	Resolvers []string // the resolver candidates (host:port on loopback), in the order they are written into the URL
	DNSList   string   // how the URL writes them: "" = ?dns=a,b | "repeat" = ?dns=a&dns=b | "udp" = ?dns=udp://a,udp://b (no TCP candidates)
	Domain    string
	resPeers  []map[string]bool // per resolver: the client sockets that have contacted it
	pcs       []net.PacketConn
}

// c16ResolverProgress: that many contacts of one dead resolver count as progress of a fail-over (the reference model
// dials every candidate once per attempt); a client that comes back to it again and again is not getting anywhere.
const c16ResolverProgress = 4

// ResolverContacts is, per resolver candidate of a "dns" endpoint, the number of distinct client sockets that
// have sent it a query (closed ports see nothing: 0). Counting stops at 100000.
func (s *C16Scripted) ResolverContacts() []int {
	s.mu.Lock()
	defer s.mu.Unlock()
	out := make([]int, len(s.resPeers))
	for i, m := range s.resPeers {
		out[i] = len(m)
	}
	return out
}

var c16DeadDNSSeq int64

// NewC16ScriptedDNS is a dns:// upstream with n resolver candidates, all of them dead in the same manner:
//
//	refused     closed UDP (and TCP) ports
//	hs-400      a resolver that answers every query with rcode REFUSED ("the server responds but does not allow our queries")
//	hs-garbage  answers bytes that are no DNS message
//	silent      takes every query and never answers
//
// No DNS server is involved (nothing is registered in miekg's handler table): the resolvers are bare UDP sockets.
func NewC16ScriptedDNS(manner string, n int) (*C16Scripted, error) {
	return NewC16ScriptedDNSHost(manner, n, "")
}

// NewC16ScriptedDNSHost: host "ip6" puts the resolver candidates on ::1.
func NewC16ScriptedDNSHost(manner string, n int, host string) (*C16Scripted, error) {
	if n < 1 {
		n = 1
	}
	s := &C16Scripted{Kind: "dns", Manner: manner, fd: -1, peers: map[string]bool{}, Host: host}
	s.Domain = fmt.Sprintf("dead%d.c16.example.org", atomic.AddInt64(&c16DeadDNSSeq, 1))
	for i := 0; i < n; i++ {
		s.resPeers = append(s.resPeers, map[string]bool{})
		if manner == "refused" {
			a, err := c16ClosedUDPPort(c16Loop(host))
			if err != nil {
				s.Close()
				return nil, err
			}
			s.Resolvers = append(s.Resolvers, a)
			continue
		}
		pc, err := net.ListenPacket("udp", c16Loop(host)+":0")
		if err != nil {
			s.Close()
			return nil, err
		}
		s.pcs = append(s.pcs, pc)
		s.Resolvers = append(s.Resolvers, pc.LocalAddr().String())
		go s.serveResolver(i, pc)
	}
	s.Addr = s.Resolvers[0]
	switch manner {
	case "refused", "hs-400", "hs-garbage", "silent":
		return s, nil
	}
	s.Close()
	return nil, fmt.Errorf("c16: no scripted manner %q for dns", manner)
}

func (s *C16Scripted) serveResolver(i int, pc net.PacketConn) {
	buf := make([]byte, 65536)
	for {
		n, from, err := pc.ReadFrom(buf)
		if err != nil {
			return
		}
		s.mu.Lock()
		if k := from.String(); !s.resPeers[i][k] && len(s.resPeers[i]) < 100000 {
			s.resPeers[i][k] = true
			if len(s.resPeers[i]) <= c16ResolverProgress {
				atomic.AddInt64(&s.accepts, 1)
				Bump(1)
			}
		}
		s.mu.Unlock()
		switch s.Manner {
		case "hs-400":
			q := new(mdns.Msg)
			if q.Unpack(buf[:n]) != nil {
				continue
			}
			r := new(mdns.Msg)
			r.SetRcode(q, mdns.RcodeRefused)
			if b, err := r.Pack(); err == nil {
				pc.WriteTo(b, from)
			}
		case "hs-garbage":
			pc.WriteTo([]byte(c16Garbage), from)
		}
	}
}

func c16ClosedUDPPort(lo string) (string, error) {
	// a closed UDP port: nothing is bound to it. It is taken from below the ephemeral range, so that no
	// other socket of this machine is given the port later while a client still sends to it.
	for i := 0; i < 200; i++ {
		port := 20000 + int((int64(os.Getpid())*131+atomic.AddInt64(&c16ClosedPortSeq, 1)*7919)%9000)
		pc, err := net.ListenPacket("udp", fmt.Sprintf("%s:%d", lo, port))
		if err != nil {
			continue
		}
		pc.Close()
		return fmt.Sprintf("%s:%d", lo, port), nil
	}
	return "", fmt.Errorf("c16: no closed udp port found")
}

// Accepts is the number of physical connections (udp: distinct peers) this endpoint has seen.
func (s *C16Scripted) Accepts() int64 { return atomic.LoadInt64(&s.accepts) }

func (s *C16Scripted) URL() string {
	switch s.Kind {
	case "dns":
		var l []string
		for _, r := range s.Resolvers {
			r = C16SpellHost(r, s.Host)
			if s.DNSList == "udp" {
				r = "udp://" + r
			}
			l = append(l, r)
		}
		sep := ","
		if s.DNSList == "repeat" {
			sep = "&dns="
		}
		return "dns://" + s.Domain + "?direct=false&dns=" + strings.Join(l, sep)
	case "ws", "wss":
		return c16Scheme(s.Kind, s.Scheme) + "://" + C16SpellHost(s.Addr, s.Host) + "/ws/all"
	case "udp":
		return c16Scheme(s.Kind, s.Scheme) + "://" + C16SpellHost(s.Addr, s.Host)
	}
	return s.Kind + "://" + C16SpellHost(s.Addr, s.Host)
}

func (s *C16Scripted) hold(c net.Conn) {
	s.mu.Lock()
	s.held = append(s.held, c)
	s.mu.Unlock()
}

var c16ClosedPortSeq int64

const c16Garbage = "\x00\xff\x13GARBAGE \x01\x02\x03 this is not a response\r\n\x7f\x80\r\n\r\n"
const c16BadRequest = "HTTP/1.1 400 Bad Request\r\nContent-Length: 0\r\nConnection: close\r\n\r\n"

// readRequest consumes one request head (up to the blank line).
func c16ReadHead(c net.Conn) {
	r := bufio.NewReader(c)
	for {
		line, err := r.ReadString('\n')
		if err != nil || line == "\r\n" || line == "\n" {
			return
		}
	}
}

// c16HalfHandshake plays a well-behaved socketace server up to a point and then says nothing more, for ever
// (the connection stays open): "silent-after-200" answers the announce request and ignores the upgrade
// request; "silent-in-starttls" also answers the upgrade request with "101" (StartTLS agreed) and then never
// answers the client's TLS handshake.
func c16HalfHandshake(c net.Conn, manner string) {
	r := bufio.NewReader(c)
	head := func() bool {
		for {
			line, err := r.ReadString('\n')
			if err != nil {
				return false
			}
			if line == "\r\n" || line == "\n" {
				return true
			}
		}
	}
	if !head() {
		return
	}
	ver := socketace.SupportedProtocolVersions[0]
	ok := &socketace.Response{Status: "200 OK", StatusCode: 200, Headers: make(textproto.MIMEHeader)}
	ok.Headers.Set("Server", "socketace/scripted")
	ok.Headers.Set("Protocol-Version", ver)
	if manner == "silent-in-starttls" {
		ok.Headers.Set(socketace.Capabilities, socketace.CapabilityStartTls)
	}
	if ok.Write(c) != nil {
		return
	}
	Bump(1)
	if !head() { // the upgrade request
		return
	}
	Bump(1)
	if manner == "silent-in-starttls" {
		sw := &socketace.Response{Status: "101 Switching Protocols", StatusCode: 101, Headers: make(textproto.MIMEHeader)}
		sw.Headers.Set("Server", "socketace/scripted")
		sw.Headers.Set("Protocol-Version", ver)
		sw.Headers.Set("Connection", "upgrade")
		sw.Headers.Set("Upgrade", "socketace/"+ver)
		if sw.Write(c) != nil {
			return
		}
		Bump(1)
	}
	// whatever the client sends from here on is taken and never answered
	buf := make([]byte, 4096)
	for {
		if _, err := r.Read(buf); err != nil {
			return
		}
	}
}

type c16CountingListener struct {
	net.Listener
	s *C16Scripted
}

func (l *c16CountingListener) Accept() (net.Conn, error) {
	c, err := l.Listener.Accept()
	if err == nil {
		atomic.AddInt64(&l.s.accepts, 1)
		Bump(1)
		l.s.hold(c)
	}
	return c, err
}

// NewC16Scripted starts a scripted endpoint.
func NewC16Scripted(kind, manner string) (*C16Scripted, error) {
	return NewC16ScriptedHost(kind, manner, "")
}

// NewC16ScriptedHost: host "ip6" puts the endpoint on ::1 (its URL then says [::1]:port); the other spellings
// are on 127.0.0.1 as before.
func NewC16ScriptedHost(kind, manner, host string) (*C16Scripted, error) {
	s := &C16Scripted{Kind: kind, Manner: manner, fd: -1, peers: map[string]bool{}, Host: host}
	lo := c16Loop(host)
	if manner == "refused" {
		if kind == "udp" {
			// a closed UDP port: nothing is bound to it. It is taken from below the ephemeral range, so that no
			// other socket of this machine is given the port later while a client still sends to it.
			for i := 0; i < 200; i++ {
				port := 20000 + int((int64(os.Getpid())*131+atomic.AddInt64(&c16ClosedPortSeq, 1)*7919)%9000)
				pc, err := net.ListenPacket("udp", fmt.Sprintf("%s:%d", lo, port))
				if err != nil {
					continue
				}
				pc.Close()
				s.Addr = fmt.Sprintf("%s:%d", lo, port)
				return s, nil
			}
			return nil, fmt.Errorf("c16: no closed udp port found")
		}
		family := syscall.AF_INET
		var bindTo syscall.Sockaddr = &syscall.SockaddrInet4{Port: 0, Addr: [4]byte{127, 0, 0, 1}}
		if host == "ip6" {
			family = syscall.AF_INET6
			bindTo = &syscall.SockaddrInet6{Port: 0, Addr: [16]byte{15: 1}}
		}
		fd, err := syscall.Socket(family, syscall.SOCK_STREAM, 0)
		if err != nil {
			return nil, err
		}
		if err = syscall.Bind(fd, bindTo); err != nil {
			syscall.Close(fd)
			return nil, err
		}
		sa, err := syscall.Getsockname(fd)
		if err != nil {
			syscall.Close(fd)
			return nil, err
		}
		s.fd = fd
		switch a := sa.(type) {
		case *syscall.SockaddrInet4:
			s.Addr = fmt.Sprintf("127.0.0.1:%d", a.Port)
		case *syscall.SockaddrInet6:
			s.Addr = fmt.Sprintf("[::1]:%d", a.Port)
		}
		return s, nil
	}
	if kind == "udp" {
		switch manner {
		case "silent":
			pc, err := net.ListenPacket("udp", lo+":0")
			if err != nil {
				return nil, err
			}
			s.pc, s.Addr = pc, pc.LocalAddr().String()
			go func() {
				buf := make([]byte, 65536)
				for {
					_, from, err := pc.ReadFrom(buf)
					if err != nil {
						return
					}
					s.mu.Lock()
					if !s.peers[from.String()] {
						s.peers[from.String()] = true
						atomic.AddInt64(&s.accepts, 1)
						Bump(1)
					}
					s.mu.Unlock()
				}
			}()
			return s, nil
		case "hs-400", "hs-garbage", "silent-after-200", "silent-in-starttls":
			ln, err := kcp.ListenWithOptions(lo+":0", nil, 10, 3)
			if err != nil {
				return nil, err
			}
			s.ln, s.Addr = ln, ln.Addr().String()
			go func() {
				for {
					c, err := ln.Accept()
					if err != nil {
						return
					}
					atomic.AddInt64(&s.accepts, 1)
					Bump(1)
					s.hold(c)
					go func(c net.Conn) {
						switch manner {
						case "hs-400":
							c16ReadHead(c)
							c.Write([]byte(c16BadRequest))
						case "hs-garbage":
							c.Write([]byte(c16Garbage))
						default:
							c16HalfHandshake(c, manner)
						}
						// a KCP session has no end-of-stream signal: the answer itself is all the peer gets
					}(c)
				}
			}()
			return s, nil
		}
		return nil, fmt.Errorf("c16: no scripted manner %q for udp", manner)
	}
	ln, err := net.Listen("tcp", lo+":0")
	if err != nil {
		return nil, err
	}
	s.ln, s.Addr = ln, ln.Addr().String()
	if kind == "ws" && (manner == "silent-inner" || manner == "silent-after-200" || manner == "silent-in-starttls") {
		up := websocket.Upgrader{}
		mux := http.NewServeMux()
		mux.HandleFunc("/ws/all", func(w http.ResponseWriter, r *http.Request) {
			c, err := up.Upgrade(w, r, nil)
			if err != nil {
				return
			}
			s.hold(c.UnderlyingConn())
			if manner != "silent-inner" {
				c16HalfHandshake(streams.NewWebsocketTunnelConnection(c), manner)
			}
			select {} // and now silent for ever
		})
		s.srv = &http.Server{Handler: mux}
		go s.srv.Serve(&c16CountingListener{Listener: ln, s: s})
		return s, nil
	}
	go func() {
		for {
			c, err := ln.Accept()
			if err != nil {
				return
			}
			atomic.AddInt64(&s.accepts, 1)
			Bump(1)
			s.hold(c)
			go s.serveTCP(c)
		}
	}()
	return s, nil
}

func (s *C16Scripted) serveTCP(c net.Conn) {
	inner := c
	needTLS := (s.Kind == "tcp+tls" && (s.Manner == "silent-inner" || s.Manner == "hs-400" || s.Manner == "silent-after-200")) ||
		(s.Kind == "wss" && (s.Manner == "silent-inner" || s.Manner == "hs-400")) // wss: the web-socket upgrade request inside TLS is refused / never answered
	if needTLS {
		pk := GetPKI()
		crt, err := tls.X509KeyPair([]byte(pk.Good.Cert), []byte(pk.Good.Key))
		if err != nil {
			c.Close()
			return
		}
		tc := tls.Server(c, &tls.Config{Certificates: []tls.Certificate{crt}})
		if err := tc.Handshake(); err != nil {
			c.Close()
			return
		}
		inner = tc
	}
	switch s.Manner {
	case "silent", "silent-inner":
		// never answers, never closes
	case "silent-after-200", "silent-in-starttls":
		c16HalfHandshake(inner, s.Manner)
	case "hs-close":
		c.Close()
	case "hs-garbage":
		inner.Write([]byte(c16Garbage))
		c16ReadHead(inner) // take what the peer has sent so that the close is not turned into a reset before the answer is read
		c.Close()
	case "hs-400":
		c16ReadHead(inner)
		inner.Write([]byte(c16BadRequest))
		inner.Close()
	}
}

// Close ends the endpoint; connections held open "for ever" are closed now.
func (s *C16Scripted) Close() {
	if !atomic.CompareAndSwapInt32(&s.closed, 0, 1) {
		return
	}
	if s.srv != nil {
		s.srv.Close()
	}
	if s.ln != nil {
		s.ln.Close()
	}
	if s.pc != nil {
		s.pc.Close()
	}
	for _, pc := range s.pcs {
		pc.Close()
	}
	if s.fd >= 0 {
		syscall.Close(s.fd)
	}
	s.mu.Lock()
	for _, c := range s.held {
		c.Close()
	}
	s.mu.Unlock()
}

// ---- recording upstream wrapper (diagnostic) -----------------------------------------------------

// C16Trial is one Connect call of the client on one listed upstream.
type C16Trial struct {
	Index int    `json:"index"`
	Err   string `json:"err,omitempty"`
	Open  bool   `json:"still_running,omitempty"`
}

// C16Trace records, in order, which listed upstreams the client tried.
type C16Trace struct {
	mu     sync.Mutex
	trials []*C16Trial
	n      int64
}

func (t *C16Trace) Trials() []C16Trial {
	t.mu.Lock()
	defer t.mu.Unlock()
	out := make([]C16Trial, 0, len(t.trials))
	for _, x := range t.trials {
		out = append(out, *x)
	}
	return out
}

// Count is the number of Connect calls started so far.
func (t *C16Trace) Count() int64 { return atomic.LoadInt64(&t.n) }

type c16RecUpstream struct {
	upstream.Upstream
	idx   int
	trace *C16Trace
}

func (r *c16RecUpstream) Connect(manager cert.TlsConfig, mustSecure bool) error {
	tr := &C16Trial{Index: r.idx, Open: true}
	r.trace.mu.Lock()
	r.trace.trials = append(r.trace.trials, tr)
	r.trace.mu.Unlock()
	atomic.AddInt64(&r.trace.n, 1)
	Bump(1)
	err := r.Upstream.Connect(manager, mustSecure)
	r.trace.mu.Lock()
	tr.Open = false
	if err != nil {
		tr.Err = Clip(err.Error(), 200)
	}
	r.trace.mu.Unlock()
	Bump(1)
	return err
}

func (r *c16RecUpstream) String() string { return fmt.Sprint(r.Upstream) }

// ---- client ---------------------------------------------------------------------------------------

// C16Client is a real client command over an arbitrary upstream list, one unix-socket listener for
// channel "echo" with an optional forward address.
type C16Client struct {
	Cmd         *clientCmd.Command
	AddrRefused string
	Addr        string
	Trace       *C16Trace
	intr        chan os.Signal
}

// NewC16Client starts the client. urls: upstream addresses in list order; forward: "" or a URL.
func NewC16Client(urls []string, forward string, secure bool) (*C16Client, error) {
	pk := GetPKI()
	c := &C16Client{Trace: &C16Trace{}, intr: make(chan os.Signal, 1)}
	var ups []upstream.Upstream
	for i, u := range urls {
		ups = append(ups, &c16RecUpstream{Upstream: C16Upstream(u), idx: i, trace: c.Trace})
	}
	al := listener.AbstractListener{ProtoName: addr.ProtoName{Name: "echo"}}
	if forward != "" {
		f := addr.MustParseAddress(forward)
		al.Forward = &f
	}
	c.Addr = sockName("c16l", "")
	al.Address = addr.MustParseAddress("unix://" + c.Addr)
	// a second listener asks for a channel no server of the workload offers (every connection to it is refused by the server)
	al2 := listener.AbstractListener{ProtoName: addr.ProtoName{Name: "not-offered-by-any-server"}}
	c.AddrRefused = sockName("c16x", "")
	al2.Address = addr.MustParseAddress("unix://" + c.AddrRefused)
	ccfg := cert.ClientConfig{}
	ccfg.CaCertificate = pk.CA1 + "\n" + C16PKI().CA // a bundle: the configured CA and the CA of the one-spelling certificates
	c.Cmd = &clientCmd.Command{ClientConfig: ccfg, ListenList: listener.Listeners{&listener.SocketListener{AbstractListener: al}, &listener.SocketListener{AbstractListener: al2}},
		Upstream: upstream.Upstreams{Data: ups}, Secure: secure}
	if err := c.Cmd.Startup(c.intr); err != nil {
		c.Cmd.Shutdown()
		return nil, fmt.Errorf("c16 client startup: %v", err)
	}
	return c, nil
}

func (c *C16Client) Dial() (net.Conn, error) { return net.Dial("unix", c.Addr) }

// DialRefused connects to the listener whose channel no server offers.
func (c *C16Client) DialRefused() (net.Conn, error) { return net.Dial("unix", c.AddrRefused) }

func (c *C16Client) Close() {
	done := Go(func() { c.Cmd.Shutdown() })
	select {
	case <-done:
	case <-time.After(5 * time.Second):
	}
	os.Remove(c.Addr)
	os.Remove(c.AddrRefused)
}

// C16Yield lets other goroutines run (used between scripted steps; never decides anything).
func C16Yield() { runtime.Gosched() }
