package e2e

import (
	"fmt"
	"io"
	"net"
	"os"
	"strings"
	"sync"
	"sync/atomic"
	"time"

	"github.com/bokysan/socketace/v2/internal/client/listener"
	"github.com/bokysan/socketace/v2/internal/client/upstream"
	clientCmd "github.com/bokysan/socketace/v2/internal/commands/client"
	serverCmd "github.com/bokysan/socketace/v2/internal/commands/server"
	"github.com/bokysan/socketace/v2/internal/server"
	"github.com/bokysan/socketace/v2/internal/streams"
	"github.com/bokysan/socketace/v2/internal/util/addr"
	"github.com/bokysan/socketace/v2/internal/util/cert"
	log "github.com/sirupsen/logrus"
)

// Carriers lists every carrier kind the fixture can build.
var Carriers = []string{"tcp", "unix", "tcp+tls", "unix+tls", "tcp+starttls", "unix+starttls", "ws", "wss", "ws+starttls",
	"stdio", "stdio+tls", "stdio+starttls", "udp", "udp+starttls", "udp+secret", "dns", "dns+starttls"}

// ChanSpec describes one channel and its recording target.
type ChanSpec struct {
	Name      string
	TargetNet string // "unix" (default) or "tcp"
	Tagged    bool
	Banner    []byte
	Socks     bool // a socks:// channel (the server's built-in SOCKS5 proxy): no fixed target
	Dead      bool // the channel's target does not listen (any more): every connection to it is refused by the target
	// Custom (optional): this channel object is handed to the server as it is (its Name() must be Name); no recording
	// target is created for it (Targets[Name] stays nil, use Dial, not Open). See c02_slowtarget.go.
	Custom server.Channel
}

// Options selects what Start builds.
type Options struct {
	Carrier   string
	Listener  string // "unix" (default), "tcp", "stdio"
	Channels  []ChanSpec
	Allow     []string // allow-list of the server endpoint (nil = all)
	WithRelay bool

	ClientSecure   bool // client --secure
	ClientInsecure bool // client --insecure
	ServerCert     *CertPair
	NoServerCert   bool // never give the server a certificate (even where the carrier default would)
	ServerCA       string
	RequireClient  bool
	ClientCert     *CertPair
	ClientCA       string
	NoClientCA     bool
	UpstreamHost   string // host part of the upstream URL: "127.0.0.1" (default), "localhost", or "-" for none (tcp://:port)
	Secret         string // udp+secret: server side
	ClientSecret   string // udp+secret: client side (default = Secret)
	Domain         string
	Forward        string              // forward address of every listener ("" = none)
	Before         []upstream.Upstream // upstreams listed before the real one (C16)
	After          []upstream.Upstream
	ListenerNames  map[string]string // listener channel name override: listener for channel X asks for name Y
	UpScheme       string            // websocket carriers: scheme the upstream URL is written with ("http"/"https" default, "ws", "wss")
	StrictVerify   bool              // do not default to insecure on carriers without a host name
	NoClient       bool              // only start the server side
	Tag            string            // makes socket names unique within one working directory
	// ServerCfgEdit / ClientCfgEdit (optional) get the certificate configuration of the server endpoint / of the
	// client command after everything above has been applied and may change it (no CA at all, CA from a file, ...)
	ServerCfgEdit func(*cert.ServerConfig)
	ClientCfgEdit func(*cert.ClientConfig)
}

// Pair is a running server+client.
type Pair struct {
	Opt       Options
	Server    *serverCmd.Command
	Client    *clientCmd.Command
	Targets   map[string]*Target
	Relay     *Relay
	UDPRelay  *UDPRelay
	ServerURL string // address the server listens on (scheme://host)
	UpURL     string // address the client connects to (relay, if any)
	Up        upstream.Upstream
	listenNet map[string]string
	listenAdr map[string]string
	stdioApp  net.Conn
	intr      chan os.Signal
	closed    int32
}

var sockSeq int64

func sockName(prefix, tag string) string {
	return fmt.Sprintf("%s%s%d.sock", prefix, tag, atomic.AddInt64(&sockSeq, 1))
}

// FreePort returns a TCP (or UDP) port that was free a moment ago. Ports 41000-41999 are never
// returned: the repository's own tests use fixed ports in that range.
func FreePort(udp bool) int {
	for {
		p := freePort(udp)
		if p < 40900 || p > 42100 {
			return p
		}
	}
}

// ListenTCP0 listens on a kernel-chosen loopback port outside 41000-41999.
func ListenTCP0() (net.Listener, error) {
	for {
		l, err := net.Listen("tcp", "127.0.0.1:0")
		if err != nil {
			return nil, err
		}
		if p := l.Addr().(*net.TCPAddr).Port; p < 40900 || p > 42100 {
			return l, nil
		}
		l.Close()
	}
}

func freePort(udp bool) int {
	if udp {
		pc, err := net.ListenPacket("udp", "127.0.0.1:0")
		if err != nil {
			panic(err)
		}
		defer pc.Close()
		return pc.LocalAddr().(*net.UDPAddr).Port
	}
	l, err := net.Listen("tcp", "127.0.0.1:0")
	if err != nil {
		panic(err)
	}
	defer l.Close()
	return l.Addr().(*net.TCPAddr).Port
}

// Quiet silences socketace's logging.
func Quiet() {
	log.SetLevel(log.PanicLevel)
	log.SetOutput(io.Discard)
}

func isBindErr(err error) bool {
	return err != nil && (strings.Contains(err.Error(), "address already in use") || strings.Contains(err.Error(), "bind:"))
}

// pipeConn is a net.Conn over two io.Pipes (the application's or the stdio carrier's end).
type pipeConn struct {
	r  *io.PipeReader
	w  *io.PipeWriter
	mu sync.Mutex
}

func (p *pipeConn) Read(b []byte) (int, error)       { return p.r.Read(b) }
func (p *pipeConn) Write(b []byte) (int, error)      { return p.w.Write(b) }
func (p *pipeConn) Close() error                     { p.w.Close(); p.r.Close(); return nil }
func (p *pipeConn) CloseWrite() error                { return p.w.Close() }
func (p *pipeConn) LocalAddr() net.Addr              { return &addr.StandardIOAddress{Address: "app"} }
func (p *pipeConn) RemoteAddr() net.Addr             { return &addr.StandardIOAddress{Address: "app-peer"} }
func (p *pipeConn) SetDeadline(time.Time) error      { return nil }
func (p *pipeConn) SetReadDeadline(time.Time) error  { return nil }
func (p *pipeConn) SetWriteDeadline(time.Time) error { return nil }

func serverCfg(o *Options) cert.ServerConfig {
	c := cert.ServerConfig{RequireClientCert: o.RequireClient}
	if o.ServerCert != nil && !o.NoServerCert {
		c.Certificate, c.PrivateKey = o.ServerCert.Cert, o.ServerCert.Key
	}
	c.CaCertificate = o.ServerCA
	if o.ServerCfgEdit != nil {
		o.ServerCfgEdit(&c)
	}
	return c
}

// Start builds and starts everything. The working directory must be private to the caller
// (unix sockets are created in it under relative names).
func Start(o Options) (*Pair, error) {
	pk := GetPKI()
	if o.Listener == "" {
		o.Listener = "unix"
	}
	if o.UpstreamHost == "" {
		o.UpstreamHost = "127.0.0.1"
	}
	if o.Domain == "" {
		o.Domain = "t.example.org"
	}
	if len(o.Channels) == 0 {
		o.Channels = []ChanSpec{{Name: "echo"}}
	}
	needCert := strings.Contains(o.Carrier, "tls") || o.Carrier == "wss"
	if needCert && o.ServerCert == nil && !o.NoServerCert {
		o.ServerCert = &pk.Good
	}
	if needCert && o.ClientCA == "" && !o.NoClientCA {
		o.ClientCA = pk.CA1
	}
	if o.ServerCA == "" {
		o.ServerCA = pk.CA1
	}
	if needCert && !o.StrictVerify && (strings.HasPrefix(o.Carrier, "unix") || strings.HasPrefix(o.Carrier, "stdio")) {
		// no host name exists on these carriers that a certificate could match: the user has to run insecure
		o.ClientInsecure = true
	}
	if o.Carrier == "udp+secret" && o.Secret == "" {
		o.Secret = "s3cret-of-the-run"
	}
	if o.ClientSecret == "" {
		o.ClientSecret = o.Secret
	}
	p := &Pair{Opt: o, Targets: map[string]*Target{}, listenNet: map[string]string{}, listenAdr: map[string]string{}, intr: make(chan os.Signal, 1)}

	// targets and channels
	var channels server.Channels
	for _, cs := range o.Channels {
		if cs.Custom != nil {
			channels = append(channels, cs.Custom)
			continue
		}
		if cs.Socks {
			channels = append(channels, &server.SocksChannel{AbstractChannel: server.AbstractChannel{
				ProtoName: addr.ProtoName{Name: cs.Name}, Address: addr.MustParseAddress("socks://")}})
			continue
		}
		netw := cs.TargetNet
		if netw == "" {
			// unix-domain targets live in the child's private directory: no other process can ever
			// connect to them by accident (a kernel-chosen TCP port can be hit by a stray client)
			netw = "unix"
		}
		t, err := NewTarget(cs.Name, netw, sockName("t", o.Tag), cs.Tagged)
		if err != nil {
			p.Close()
			return nil, err
		}
		t.Banner = cs.Banner
		if cs.Dead {
			t.Close() // the address stays in the server's channel table, nobody listens on it
		}
		p.Targets[cs.Name] = t
		channels = append(channels, &server.NetworkChannel{AbstractChannel: server.AbstractChannel{
			ProtoName: addr.ProtoName{Name: cs.Name}, Address: addr.MustParseAddress(t.URL())}})
	}

	// server
	var stdioUpIn io.ReadCloser
	var stdioUpOut io.WriteCloser
	var lastErr error
	for attempt := 0; attempt < 8; attempt++ {
		var srv server.Server
		cfg := serverCfg(&o)
		base := strings.Split(o.Carrier, "+")[0]
		tls := strings.HasSuffix(o.Carrier, "+tls")
		switch base {
		case "tcp":
			s := server.NewSocketServer()
			sch := "tcp"
			if tls {
				sch = "tcp+tls"
			}
			p.ServerURL = fmt.Sprintf("%s://127.0.0.1:%d", sch, FreePort(false))
			s.Address, s.Channels, s.ServerConfig = addr.MustParseAddress(p.ServerURL), o.Allow, cfg
			srv = s
		case "unix":
			s := server.NewSocketServer()
			sch := "unix"
			if tls {
				sch = "unix+tls"
			}
			p.ServerURL = fmt.Sprintf("%s://%s", sch, sockName("s", o.Tag))
			s.Address, s.Channels, s.ServerConfig = addr.MustParseAddress(p.ServerURL), o.Allow, cfg
			srv = s
		case "ws", "wss":
			s := server.NewHttpServer()
			sch := "http"
			if base == "wss" {
				sch = "https"
			}
			p.ServerURL = fmt.Sprintf("%s://127.0.0.1:%d", sch, FreePort(false))
			s.Address, s.ServerConfig = addr.MustParseAddress(p.ServerURL), cfg
			s.Endpoints = server.WebsocketEndpointList{{Endpoint: "/ws/all", Channels: o.Allow}}
			srv = s
		case "udp":
			s := server.NewPacketServer()
			cred := ""
			if o.Secret != "" {
				cred = "u:" + o.Secret + "@"
			}
			p.ServerURL = fmt.Sprintf("udp://%s127.0.0.1:%d", cred, FreePort(true))
			s.Address, s.Channels, s.ServerConfig = addr.MustParseAddress(p.ServerURL), o.Allow, cfg
			srv = s
		case "dns":
			s := server.NewDnsServer()
			p.ServerURL = fmt.Sprintf("dns://127.0.0.1:%d", FreePort(true))
			s.Address, s.Channels, s.ServerConfig, s.Domain = addr.MustParseAddress(p.ServerURL), o.Allow, cfg, o.Domain
			srv = s
		case "stdio":
			s := server.NewIoServer()
			r1, w1 := io.Pipe() // client -> server
			r2, w2 := io.Pipe() // server -> client
			s.Input, s.Output = r1, w2
			stdioUpIn, stdioUpOut = r2, w1
			sch := "stdio"
			if tls {
				sch = "stdio+tls"
			}
			p.ServerURL = sch + "://"
			s.Address, s.Channels, s.ServerConfig = addr.MustParseAddress(p.ServerURL), o.Allow, cfg
			srv = s
		default:
			p.Close()
			return nil, fmt.Errorf("unknown carrier %q", o.Carrier)
		}
		p.Server = &serverCmd.Command{Channels: channels, Servers: server.Servers{srv}}
		lastErr = p.Server.Startup(p.intr)
		if lastErr == nil {
			break
		}
		func() {
			defer func() { recover() }() // HttpServer.Shutdown dereferences a nil server when Startup failed early
			p.Server.Shutdown()
		}()
		if !isBindErr(lastErr) {
			break
		}
	}
	if lastErr != nil {
		p.Server = nil
		p.Close()
		return nil, fmt.Errorf("server startup: %v", lastErr)
	}

	// relay
	srvHost := p.ServerURL[strings.Index(p.ServerURL, "://")+3:]
	if i := strings.Index(srvHost, "@"); i >= 0 {
		srvHost = srvHost[i+1:]
	}
	upHost := srvHost
	base := strings.Split(o.Carrier, "+")[0]
	if o.WithRelay {
		var err error
		switch base {
		case "tcp", "ws", "wss":
			p.Relay, err = NewRelay("tcp", srvHost, "")
			if err == nil {
				upHost = p.Relay.Addr
			}
		case "unix":
			p.Relay, err = NewRelay("unix", srvHost, sockName("r", o.Tag))
			if err == nil {
				upHost = p.Relay.Addr
			}
		case "udp", "dns":
			p.UDPRelay, err = NewUDPRelay(srvHost)
			if err == nil {
				upHost = p.UDPRelay.Addr
			}
		default:
			err = fmt.Errorf("no relay for carrier %s", o.Carrier)
		}
		if err != nil {
			p.Close()
			return nil, err
		}
	}
	if o.UpstreamHost == "-" && base != "unix" {
		// the upstream URL is written without a host part (tcp://:9000): dials the local host
		upHost = strings.Replace(upHost, "127.0.0.1", "", 1)
	} else if o.UpstreamHost != "127.0.0.1" && base != "unix" {
		upHost = strings.Replace(upHost, "127.0.0.1", o.UpstreamHost, 1)
	}

	// client upstream
	var up upstream.Upstream
	switch base {
	case "tcp", "unix":
		sch := base
		if strings.HasSuffix(o.Carrier, "+tls") {
			sch += "+tls"
		}
		p.UpURL = sch + "://" + upHost
		up = &upstream.Socket{Address: addr.MustParseAddress(p.UpURL)}
	case "ws", "wss":
		sch := "http"
		if base == "wss" {
			sch = "https"
		}
		if o.UpScheme != "" {
			sch = o.UpScheme
		}
		p.UpURL = sch + "://" + upHost + "/ws/all"
		up = &upstream.Http{Address: addr.MustParseAddress(p.UpURL)}
	case "udp":
		cred := ""
		if o.ClientSecret != "" {
			cred = "u:" + o.ClientSecret + "@"
		}
		p.UpURL = "udp://" + cred + upHost
		up = &upstream.Packet{Address: addr.MustParseAddress(p.UpURL)}
	case "dns":
		p.UpURL = "dns://" + o.Domain + "?direct=false&dns=" + upHost
		up = &upstream.Dns{Address: addr.MustParseAddress(p.UpURL)}
	case "stdio":
		sch := "stdin"
		if strings.HasSuffix(o.Carrier, "+tls") {
			sch = "stdin+tls"
		}
		p.UpURL = sch + "://"
		up = &upstream.InputOutput{Address: addr.MustParseAddress(p.UpURL), Input: stdioUpIn, Output: stdioUpOut}
	}
	p.Up = up
	if o.NoClient {
		return p, nil
	}

	ccfg := cert.ClientConfig{InsecureSkipVerify: o.ClientInsecure}
	ccfg.CaCertificate = o.ClientCA
	if o.ClientCert != nil {
		ccfg.Certificate, ccfg.PrivateKey = o.ClientCert.Cert, o.ClientCert.Key
	}
	if o.ClientCfgEdit != nil {
		o.ClientCfgEdit(&ccfg)
	}
	var ups []upstream.Upstream
	ups = append(ups, o.Before...)
	ups = append(ups, up)
	ups = append(ups, o.After...)

	lastErr = nil
	for attempt := 0; attempt < 8; attempt++ {
		var ll listener.Listeners
		for _, cs := range o.Channels {
			name := cs.Name
			if o.ListenerNames != nil {
				if n, ok := o.ListenerNames[cs.Name]; ok {
					name = n
				}
			}
			al := listener.AbstractListener{ProtoName: addr.ProtoName{Name: name}}
			if o.Forward != "" {
				f := addr.MustParseAddress(o.Forward)
				al.Forward = &f
			}
			switch o.Listener {
			case "tcp":
				a := fmt.Sprintf("127.0.0.1:%d", FreePort(false))
				al.Address = addr.MustParseAddress("tcp://" + a)
				p.listenNet[cs.Name], p.listenAdr[cs.Name] = "tcp", a
				ll = append(ll, &listener.SocketListener{AbstractListener: al})
			case "unix":
				a := sockName("l", o.Tag)
				al.Address = addr.MustParseAddress("unix://" + a)
				p.listenNet[cs.Name], p.listenAdr[cs.Name] = "unix", a
				ll = append(ll, &listener.SocketListener{AbstractListener: al})
			case "stdio":
				ar, aw := io.Pipe() // app -> listener
				lr, lw := io.Pipe() // listener -> app
				al.Address = addr.MustParseAddress("stdin://")
				io := streams.NewSimulatedConnection(streams.NewReadWriteCloser(ar, lw),
					&addr.StandardIOAddress{Address: "client-input"}, &addr.StandardIOAddress{Address: "client-output"})
				ll = append(ll, &listener.InputOutputListener{AbstractListener: al, InputOutput: streams.NewNamedConnection(io, "stdio")})
				p.stdioApp = &pipeConn{r: lr, w: aw}
			}
		}
		p.Client = &clientCmd.Command{ClientConfig: ccfg, ListenList: ll, Upstream: upstream.Upstreams{Data: ups}, Secure: o.ClientSecure}
		lastErr = p.Client.Startup(p.intr)
		if lastErr == nil {
			break
		}
		p.Client.Shutdown()
		if !isBindErr(lastErr) {
			break
		}
	}
	if lastErr != nil {
		p.Client = nil
		p.Close()
		return nil, fmt.Errorf("client startup: %v", lastErr)
	}
	return p, nil
}

// Dial opens a local application connection to the listener of the channel.
func (p *Pair) Dial(channel string) (net.Conn, error) {
	if p.Opt.Listener == "stdio" {
		return p.stdioApp, nil
	}
	return net.Dial(p.listenNet[channel], p.listenAdr[channel])
}

// Open opens a logical connection on channel and returns both of its ends: the application's
// socket and the socket accepted by the channel's recording target (untagged targets only).
func (p *Pair) Open(channel string) (app, tgt net.Conn, o Outcome, err error) {
	app, err = p.Dial(channel)
	if err != nil {
		return nil, nil, Done, err
	}
	tgt, o = p.Targets[channel].Next()
	return
}

// Close shuts everything down.
func (p *Pair) Close() {
	if !atomic.CompareAndSwapInt32(&p.closed, 0, 1) {
		return
	}
	if p.Client != nil {
		p.Client.Shutdown()
	}
	if p.Server != nil {
		done := Go(func() { p.Server.Shutdown() })
		select {
		case <-done:
		case <-time.After(10 * time.Second):
		}
	}
	if p.Relay != nil {
		p.Relay.Close()
	}
	if p.UDPRelay != nil {
		p.UDPRelay.Close()
	}
	for _, t := range p.Targets {
		t.Close()
	}
	if p.stdioApp != nil {
		p.stdioApp.Close()
	}
}

// OpenSocks opens a logical connection on a socks channel and asks the server's SOCKS5 proxy to
// CONNECT to tgt (a TCP recording target); it returns both ends like Open.
func (p *Pair) OpenSocks(channel string, tgt *Target) (app, t net.Conn, o Outcome, err error) {
	app, err = p.Dial(channel)
	if err != nil {
		return nil, nil, Done, err
	}
	host, portS, _ := net.SplitHostPort(tgt.Addr)
	ip := net.ParseIP(host).To4()
	var port int
	fmt.Sscanf(portS, "%d", &port)
	done := Go(func() {
		if _, err = app.Write([]byte{5, 1, 0}); err != nil {
			return
		}
		rep := make([]byte, 2)
		if _, err = io.ReadFull(app, rep); err != nil {
			return
		}
		Bump(2)
		if rep[0] != 5 || rep[1] != 0 {
			err = fmt.Errorf("socks method reply %v", rep)
			return
		}
		req := append([]byte{5, 1, 0, 1}, ip...)
		req = append(req, byte(port>>8), byte(port))
		if _, err = app.Write(req); err != nil {
			return
		}
		rep = make([]byte, 10)
		if _, err = io.ReadFull(app, rep); err != nil {
			return
		}
		Bump(10)
		if rep[1] != 0 {
			err = fmt.Errorf("socks connect reply %v", rep)
		}
	})
	if o = Wait(done); o != Done || err != nil {
		return app, nil, o, err
	}
	t, o = tgt.Next()
	return
}
