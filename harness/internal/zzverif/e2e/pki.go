// Package e2e is the end-to-end fixture shared by the C01-C05 and C14-C17 monitors: a real
// socketace server command and client command in one process, recording targets, relays that can
// cut / black-hole / inject, a run-time PKI and keyed-stream helpers (DESIGN.md §4, "Common e2e fixture").
package e2e

import (
	"crypto/ecdsa"
	"crypto/elliptic"
	"crypto/rand"
	"crypto/x509"
	"crypto/x509/pkix"
	"encoding/pem"
	"math/big"
	"net"
	"sync"
	"time"
)

// CertPair is a certificate and its key in PEM form.
type CertPair struct {
	Cert string
	Key  string
}

// PKI holds everything the TLS cases need. CA1 is "the configured CA", CA2 a foreign one.
type PKI struct {
	CA1, CA2 string // PEM certificates
	// server certificates
	Good      CertPair // CA1, SAN localhost + 127.0.0.1 + ::1
	GoodDNS   CertPair // CA1, SAN DNS:localhost only
	GoodIP    CertPair // CA1, SAN 127.0.0.1 + ::1 only
	WrongHost CertPair // CA1, SAN other.example.net
	Untrusted CertPair // CA2, SAN localhost + 127.0.0.1
	Expired   CertPair // CA1, matching, expired yesterday
	// client certificates
	Client1 CertPair // signed by CA1
	Client2 CertPair // signed by CA2
}

type ca struct {
	cert *x509.Certificate
	key  *ecdsa.PrivateKey
	pem  string
}

var serial int64 = 1000
var serialMu sync.Mutex

func nextSerial() *big.Int {
	serialMu.Lock()
	defer serialMu.Unlock()
	serial++
	return big.NewInt(serial)
}

func newCA(cn string) *ca {
	key, _ := ecdsa.GenerateKey(elliptic.P256(), rand.Reader)
	tpl := &x509.Certificate{
		SerialNumber: nextSerial(), Subject: pkix.Name{CommonName: cn, Organization: []string{"verif"}},
		NotBefore: time.Now().Add(-48 * time.Hour), NotAfter: time.Now().Add(10 * 365 * 24 * time.Hour),
		IsCA: true, BasicConstraintsValid: true, KeyUsage: x509.KeyUsageCertSign | x509.KeyUsageDigitalSignature,
	}
	der, err := x509.CreateCertificate(rand.Reader, tpl, tpl, &key.PublicKey, key)
	if err != nil {
		panic(err)
	}
	cert, _ := x509.ParseCertificate(der)
	return &ca{cert, key, string(pem.EncodeToMemory(&pem.Block{Type: "CERTIFICATE", Bytes: der}))}
}

func (c *ca) issue(cn string, dns []string, ips []net.IP, client bool, notBefore, notAfter time.Time) CertPair {
	key, _ := ecdsa.GenerateKey(elliptic.P256(), rand.Reader)
	tpl := &x509.Certificate{
		SerialNumber: nextSerial(), Subject: pkix.Name{CommonName: cn}, NotBefore: notBefore, NotAfter: notAfter,
		DNSNames: dns, IPAddresses: ips, KeyUsage: x509.KeyUsageDigitalSignature | x509.KeyUsageKeyEncipherment,
	}
	if client {
		tpl.ExtKeyUsage = []x509.ExtKeyUsage{x509.ExtKeyUsageClientAuth}
	} else {
		tpl.ExtKeyUsage = []x509.ExtKeyUsage{x509.ExtKeyUsageServerAuth}
	}
	der, err := x509.CreateCertificate(rand.Reader, tpl, c.cert, &key.PublicKey, c.key)
	if err != nil {
		panic(err)
	}
	kb, err := x509.MarshalPKCS8PrivateKey(key)
	if err != nil {
		panic(err)
	}
	return CertPair{
		Cert: string(pem.EncodeToMemory(&pem.Block{Type: "CERTIFICATE", Bytes: der})),
		Key:  string(pem.EncodeToMemory(&pem.Block{Type: "PRIVATE KEY", Bytes: kb})),
	}
}

var pkiOnce sync.Once
var pki *PKI

// GetPKI generates the PKI once per process.
func GetPKI() *PKI {
	pkiOnce.Do(func() {
		c1, c2 := newCA("verif CA one"), newCA("verif CA two")
		now := time.Now()
		from, to := now.Add(-24*time.Hour), now.Add(365*24*time.Hour)
		lo := []net.IP{net.IPv4(127, 0, 0, 1), net.IPv6loopback}
		pki = &PKI{
			CA1: c1.pem, CA2: c2.pem,
			Good:      c1.issue("localhost", []string{"localhost", "t.example.org", "*.c16.example.org"}, lo, false, from, to),
			GoodDNS:   c1.issue("localhost", []string{"localhost"}, nil, false, from, to),
			GoodIP:    c1.issue("127.0.0.1", nil, lo, false, from, to),
			WrongHost: c1.issue("other.example.net", []string{"other.example.net"}, nil, false, from, to),
			Untrusted: c2.issue("localhost", []string{"localhost"}, lo, false, from, to),
			Expired:   c1.issue("localhost", []string{"localhost"}, lo, false, now.Add(-72*time.Hour), now.Add(-24*time.Hour)),
			Client1:   c1.issue("client one", nil, nil, true, from, to),
			Client2:   c2.issue("client two", nil, nil, true, from, to),
		}
	})
	return pki
}
