package e2e

import (
	"bytes"
	"net"
	"sync"
	"sync/atomic"
	"time"
)

// Relay sits between client and server on a stream carrier (tcp or unix) and records both directions.
type Relay struct {
	Addr     string
	network  string
	upstream string
	ln       net.Listener
	mu       sync.Mutex
	links    []*Link
	Conns    int64 // physical connections accepted (atomic)
	capLimit int
	// BlackHole: accept and forward nothing (both directions are swallowed)
	blackhole int32
	closed    int32
	// down: the server behind the relay has been stopped. New connections are ended at once, as after a failed
	// dial - without dialling, because the port the server has given up may meanwhile belong to a socket of
	// another test process.
	down int32
}

// SetDown tells the relay that nothing listens behind it (any more).
func (r *Relay) SetDown(on bool) {
	v := int32(0)
	if on {
		v = 1
	}
	atomic.StoreInt32(&r.down, v)
}

// Link is one relayed physical connection.
type Link struct {
	r        *Relay
	Client   net.Conn
	Server   net.Conn
	mu       sync.Mutex
	c2s, s2c bytes.Buffer
	C2S, S2C int64
	stopFwd  int32
}

func NewRelay(network, upstream, unixName string) (*Relay, error) {
	r := &Relay{network: network, upstream: upstream, capLimit: 8 << 20}
	var err error
	if network == "unix" {
		r.ln, err = net.Listen("unix", unixName)
		r.Addr = unixName
	} else {
		r.ln, err = ListenTCP0()
		if err == nil {
			r.Addr = r.ln.Addr().String()
		}
	}
	if err != nil {
		return nil, err
	}
	go r.loop()
	return r, nil
}

func (r *Relay) loop() {
	for {
		c, err := r.ln.Accept()
		if err != nil {
			return
		}
		atomic.AddInt64(&r.Conns, 1)
		if atomic.LoadInt32(&r.down) != 0 {
			c.Close()
			continue
		}
		s, err := net.Dial(r.network, r.upstream)
		if err != nil {
			c.Close()
			continue
		}
		l := &Link{r: r, Client: c, Server: s}
		r.mu.Lock()
		r.links = append(r.links, l)
		r.mu.Unlock()
		go l.pump(c, s, true)
		go l.pump(s, c, false)
	}
}

func (l *Link) pump(from, to net.Conn, c2s bool) {
	buf := make([]byte, 32768)
	for {
		n, err := from.Read(buf)
		if n > 0 {
			l.mu.Lock()
			if c2s {
				l.C2S += int64(n)
				if l.c2s.Len() < l.r.capLimit {
					l.c2s.Write(buf[:n])
				}
			} else {
				l.S2C += int64(n)
				if l.s2c.Len() < l.r.capLimit {
					l.s2c.Write(buf[:n])
				}
			}
			l.mu.Unlock()
			if atomic.LoadInt32(&l.r.blackhole) == 0 && atomic.LoadInt32(&l.stopFwd) == 0 {
				if _, werr := to.Write(buf[:n]); werr != nil {
					return
				}
			}
		}
		if err != nil {
			if atomic.LoadInt32(&l.r.blackhole) == 0 && atomic.LoadInt32(&l.stopFwd) == 0 {
				// propagate the end of stream
				if tc, ok := to.(*net.TCPConn); ok {
					tc.CloseWrite()
				} else if uc, ok := to.(*net.UnixConn); ok {
					uc.CloseWrite()
				}
			}
			return
		}
	}
}

// Links returns the relayed connections so far.
func (r *Relay) Links() []*Link {
	r.mu.Lock()
	defer r.mu.Unlock()
	return append([]*Link{}, r.links...)
}

func (r *Relay) ConnCount() int64 { return atomic.LoadInt64(&r.Conns) }

// SetBlackHole makes the relay swallow everything from now on (connections stay open).
func (r *Relay) SetBlackHole(on bool) {
	if on {
		atomic.StoreInt32(&r.blackhole, 1)
	} else {
		atomic.StoreInt32(&r.blackhole, 0)
	}
}

// Captured returns copies of what was seen in both directions.
func (l *Link) Captured() (c2s, s2c []byte) {
	l.mu.Lock()
	defer l.mu.Unlock()
	return append([]byte{}, l.c2s.Bytes()...), append([]byte{}, l.s2c.Bytes()...)
}

// CutFIN closes both sides gracefully.
func (l *Link) CutFIN() {
	atomic.StoreInt32(&l.stopFwd, 1)
	l.Client.Close()
	l.Server.Close()
}

// CutRST resets both sides.
func (l *Link) CutRST() {
	atomic.StoreInt32(&l.stopFwd, 1)
	for _, c := range []net.Conn{l.Client, l.Server} {
		if tc, ok := c.(*net.TCPConn); ok {
			tc.SetLinger(0)
		}
		c.Close()
	}
}

// InjectToServer writes bytes to the server side as if the client had sent them.
func (l *Link) InjectToServer(b []byte) error {
	l.Server.SetWriteDeadline(time.Now().Add(5 * time.Second))
	_, err := l.Server.Write(b)
	return err
}

// InjectToClient writes bytes to the client side as if the server had sent them.
func (l *Link) InjectToClient(b []byte) error {
	l.Client.SetWriteDeadline(time.Now().Add(5 * time.Second))
	_, err := l.Client.Write(b)
	return err
}

func (r *Relay) Close() {
	if atomic.CompareAndSwapInt32(&r.closed, 0, 1) {
		r.ln.Close()
		for _, l := range r.Links() {
			l.Client.Close()
			l.Server.Close()
		}
	}
}

// UDPRelay forwards datagrams between clients and one server address, recording them.
type UDPRelay struct {
	Addr      string
	pc        net.PacketConn
	server    *net.UDPAddr
	mu        sync.Mutex
	peers     map[string]*net.UDPConn
	C2S, S2C  [][]byte
	blackhole int32
	Packets   int64
	closed    int32
	// Drop, if set, is asked for every datagram (direction c2s or s2c, running number in that direction)
	// whether to drop it. It must be set before traffic starts.
	Drop    func(c2s bool, n int64) bool
	nC2S    int64
	nS2C    int64
	Dropped int64
}

func NewUDPRelay(server string) (*UDPRelay, error) {
	sa, err := net.ResolveUDPAddr("udp", server)
	if err != nil {
		return nil, err
	}
	pc, err := net.ListenPacket("udp", "127.0.0.1:0")
	if err != nil {
		return nil, err
	}
	r := &UDPRelay{Addr: pc.LocalAddr().String(), pc: pc, server: sa, peers: map[string]*net.UDPConn{}}
	go r.loop()
	return r, nil
}

func (r *UDPRelay) loop() {
	buf := make([]byte, 65536)
	for {
		n, from, err := r.pc.ReadFrom(buf)
		if err != nil {
			return
		}
		atomic.AddInt64(&r.Packets, 1)
		pkt := append([]byte{}, buf[:n]...)
		r.mu.Lock()
		if len(r.C2S) < 20000 {
			r.C2S = append(r.C2S, pkt)
		}
		up := r.peers[from.String()]
		if up == nil {
			up, err = net.DialUDP("udp", nil, r.server)
			if err != nil {
				r.mu.Unlock()
				continue
			}
			r.peers[from.String()] = up
			go r.back(up, from)
		}
		r.mu.Unlock()
		if r.Drop != nil && r.Drop(true, atomic.AddInt64(&r.nC2S, 1)) {
			atomic.AddInt64(&r.Dropped, 1)
			continue
		}
		if atomic.LoadInt32(&r.blackhole) == 0 {
			up.Write(pkt)
		}
	}
}

func (r *UDPRelay) back(up *net.UDPConn, to net.Addr) {
	buf := make([]byte, 65536)
	for {
		n, err := up.Read(buf)
		if err != nil {
			return
		}
		pkt := append([]byte{}, buf[:n]...)
		r.mu.Lock()
		if len(r.S2C) < 20000 {
			r.S2C = append(r.S2C, pkt)
		}
		r.mu.Unlock()
		if r.Drop != nil && r.Drop(false, atomic.AddInt64(&r.nS2C, 1)) {
			atomic.AddInt64(&r.Dropped, 1)
			continue
		}
		if atomic.LoadInt32(&r.blackhole) == 0 {
			r.pc.WriteTo(pkt, to)
		}
	}
}

func (r *UDPRelay) SetBlackHole(on bool) {
	if on {
		atomic.StoreInt32(&r.blackhole, 1)
	} else {
		atomic.StoreInt32(&r.blackhole, 0)
	}
}

// Peers is the number of distinct client sockets seen (= physical KCP/DNS sessions, roughly).
func (r *UDPRelay) Peers() int {
	r.mu.Lock()
	defer r.mu.Unlock()
	return len(r.peers)
}

func (r *UDPRelay) Captured() (c2s, s2c [][]byte) {
	r.mu.Lock()
	defer r.mu.Unlock()
	return append([][]byte{}, r.C2S...), append([][]byte{}, r.S2C...)
}

func (r *UDPRelay) Close() {
	if atomic.CompareAndSwapInt32(&r.closed, 0, 1) {
		r.pc.Close()
		r.mu.Lock()
		for _, p := range r.peers {
			p.Close()
		}
		r.mu.Unlock()
	}
}
