package e2e

import (
	"encoding/binary"
	"io"
	"net"
	"sync"
	"sync/atomic"
)

// Target is a recording listener standing in for a channel's target service. Accepted
// connections are handed to the harness, which then holds both ends of the logical connection.
type Target struct {
	Name     string
	Network  string
	Addr     string // host:port or socket name as it goes into the channel URL
	ln       net.Listener
	Accepts  int64 // number of accepted connections (atomic)
	accepted chan net.Conn
	tagged   bool
	mu       sync.Mutex
	byTag    map[uint64]chan net.Conn
	closed   int32
	// Banner, if set, is written by the target on every accepted connection before anything else
	Banner []byte
}

// NewTarget listens on an ephemeral TCP port (network "tcp") or a unix socket name relative to the cwd.
// tagged: the first 8 bytes an application writes identify the logical connection (concurrent opens).
func NewTarget(name, network, unixName string, tagged bool) (*Target, error) {
	t := &Target{Name: name, Network: network, accepted: make(chan net.Conn, 4096), tagged: tagged, byTag: map[uint64]chan net.Conn{}}
	var err error
	if network == "unix" {
		t.ln, err = net.Listen("unix", unixName)
		t.Addr = unixName
	} else {
		t.ln, err = ListenTCP0()
		if err == nil {
			t.Addr = t.ln.Addr().String()
		}
	}
	if err != nil {
		return nil, err
	}
	go t.loop()
	return t, nil
}

// URL is the channel address.
func (t *Target) URL() string { return t.Network + "://" + t.Addr }

func (t *Target) loop() {
	for {
		c, err := t.ln.Accept()
		if err != nil {
			return
		}
		atomic.AddInt64(&t.Accepts, 1)
		Bump(1)
		if len(t.Banner) > 0 {
			c.Write(t.Banner)
		}
		if !t.tagged {
			t.accepted <- c
			continue
		}
		go func(c net.Conn) {
			var hdr [8]byte
			if _, err := io.ReadFull(c, hdr[:]); err != nil {
				c.Close()
				return
			}
			Bump(8)
			t.tagChan(binary.BigEndian.Uint64(hdr[:])) <- c
		}(c)
	}
}

func (t *Target) tagChan(tag uint64) chan net.Conn {
	t.mu.Lock()
	defer t.mu.Unlock()
	ch := t.byTag[tag]
	if ch == nil {
		ch = make(chan net.Conn, 1)
		t.byTag[tag] = ch
	}
	return ch
}

// Next returns the next accepted connection (untagged mode) under the stall rule.
func (t *Target) Next() (net.Conn, Outcome) {
	var c net.Conn
	done := Go(func() { c = <-t.accepted })
	o := Wait(done)
	return c, o
}

// TryNext returns an accepted connection if one is already waiting.
func (t *Target) TryNext() net.Conn {
	select {
	case c := <-t.accepted:
		return c
	default:
		return nil
	}
}

// NextTagged returns the accepted connection whose first 8 bytes were tag (tagged mode).
func (t *Target) NextTagged(tag uint64) (net.Conn, Outcome) {
	ch := t.tagChan(tag)
	var c net.Conn
	done := Go(func() { c = <-ch })
	o := Wait(done)
	return c, o
}

func (t *Target) AcceptCount() int64 { return atomic.LoadInt64(&t.Accepts) }

func (t *Target) Close() {
	if atomic.CompareAndSwapInt32(&t.closed, 0, 1) {
		t.ln.Close()
	}
}
