package e2e

import (
	"fmt"
	"io"
	"net"
	"strings"
	"sync"

	"github.com/bokysan/socketace/v2/internal/zzverif/vcommon"
)

// Failure describes a refuting (or inconclusive) observation of a transfer.
type Failure struct {
	Kind         string // signature fragment, e.g. "c2t:mismatch:loss"
	Inconclusive bool
	Info         map[string]interface{}
}

func (f *Failure) String() string { return fmt.Sprintf("%s %v", f.Kind, f.Info) }

// Content classes of a stream.
const (
	Keyed = iota
	Zeros
	Ones
)

// Stream describes one direction of a transfer.
type Stream struct {
	Key     uint64
	Len     int64
	Content int
	Seg     func() int // size of the next write (nil = whole payload at once)
}

func fill(s *Stream, off int64, buf []byte) {
	switch s.Content {
	case Zeros:
		for i := range buf {
			buf[i] = 0
		}
	case Ones:
		for i := range buf {
			buf[i] = 0xff
		}
	default:
		vcommon.FillKeyed(s.Key, off, buf)
	}
}

func check(s *Stream, off int64, buf []byte) int {
	switch s.Content {
	case Zeros:
		for i, b := range buf {
			if b != 0 {
				return i
			}
		}
		return -1
	case Ones:
		for i, b := range buf {
			if b != 0xff {
				return i
			}
		}
		return -1
	default:
		return vcommon.CheckKeyed(s.Key, off, buf)
	}
}

// WriteStream writes the stream to w in the given segmentation. Returns bytes written.
func WriteStream(w io.Writer, s *Stream) (int64, error) {
	var off int64
	for off < s.Len {
		sz := s.Len - off
		if s.Seg != nil {
			if n := int64(s.Seg()); n > 0 && n < sz {
				sz = n
			}
		}
		if sz > 4<<20 {
			sz = 4 << 20
		}
		buf := make([]byte, sz)
		fill(s, off, buf)
		n, err := w.Write(buf)
		off += int64(n)
		Bump(n)
		if err != nil {
			return off, err
		}
		if int64(n) != sz {
			return off, io.ErrShortWrite
		}
	}
	return off, nil
}

// ReadStream reads exactly s.Len bytes from r and verifies them online. others = keys of the
// other streams alive in the run (to classify cross-talk).
func ReadStream(r io.Reader, s *Stream, others []uint64) (int64, *Failure) {
	buf := make([]byte, 65536)
	var off int64
	for off < s.Len {
		want := int64(len(buf))
		if s.Len-off < want {
			want = s.Len - off
		}
		n, err := r.Read(buf[:want])
		if n > 0 {
			Bump(n)
			if bad := check(s, off, buf[:n]); bad >= 0 {
				kind := "altered"
				if s.Content == Keyed {
					kind = vcommon.Classify(s.Key, off+int64(bad), buf[bad:n], others)
				}
				cls := kind
				if i := strings.IndexByte(kind, '('); i > 0 {
					cls = kind[:i]
				}
				return off + int64(bad), &Failure{Kind: "mismatch:" + cls, Info: map[string]interface{}{"offset": off + int64(bad), "detail": kind, "stream_len": s.Len}}
			}
			off += int64(n)
		}
		if err != nil {
			if off >= s.Len {
				break
			}
			k := "read-error"
			if err == io.EOF {
				k = "ended-short"
			}
			return off, &Failure{Kind: k, Info: map[string]interface{}{"got": off, "want": s.Len, "err": err.Error()}}
		}
	}
	return off, nil
}

// Duplex moves a→b stream ab and b→a stream ba simultaneously and independently (full duplex)
// and verifies both online. Names label the directions in failure kinds ("c2t", "t2c").
func Duplex(a, b net.Conn, ab, ba *Stream, nameAB, nameBA string, others []uint64) *Failure {
	var mu sync.Mutex
	var first *Failure
	set := func(f *Failure, dir string) {
		if f == nil {
			return
		}
		f.Kind = dir + ":" + f.Kind
		mu.Lock()
		if first == nil {
			first = f
		}
		mu.Unlock()
	}
	var wg sync.WaitGroup
	run := func(f func()) {
		wg.Add(1)
		go func() { defer wg.Done(); f() }()
	}
	if ab != nil && ab.Len > 0 {
		run(func() {
			if n, err := WriteStream(a, ab); err != nil {
				set(&Failure{Kind: "write-error", Info: map[string]interface{}{"written": n, "want": ab.Len, "err": err.Error()}}, nameAB)
			}
		})
		run(func() { _, f := ReadStream(b, ab, others); set(f, nameAB) })
	}
	if ba != nil && ba.Len > 0 {
		run(func() {
			if n, err := WriteStream(b, ba); err != nil {
				set(&Failure{Kind: "write-error", Info: map[string]interface{}{"written": n, "want": ba.Len, "err": err.Error()}}, nameBA)
			}
		})
		run(func() { _, f := ReadStream(a, ba, others); set(f, nameBA) })
	}
	done := Go(wg.Wait)
	switch Wait(done) {
	case Stalled:
		mu.Lock()
		defer mu.Unlock()
		if first != nil {
			return first
		}
		return &Failure{Kind: "stalled", Info: map[string]interface{}{"goroutines": clip(Stacks(), 60000)}}
	case Inconclusive:
		return &Failure{Kind: "busy-at-watchdog", Inconclusive: true, Info: map[string]interface{}{}}
	}
	return first
}

// ExpectEOF: after the peer closed, r must deliver end-of-stream and not a single extra byte.
func ExpectEOF(r net.Conn, dir string) *Failure {
	var n int
	var err error
	buf := make([]byte, 4096)
	done := Go(func() { n, err = r.Read(buf) })
	switch Wait(done) {
	case Stalled:
		return &Failure{Kind: dir + ":no-end-of-stream-after-close", Info: map[string]interface{}{"goroutines": clip(Stacks(), 60000)}}
	case Inconclusive:
		return &Failure{Kind: dir + ":busy-at-watchdog", Inconclusive: true}
	}
	if n > 0 {
		return &Failure{Kind: dir + ":bytes-after-end", Info: map[string]interface{}{"extra": n}}
	}
	_ = err // EOF or a reset: both terminate the connection
	return nil
}

func clip(s string, n int) string {
	if len(s) > n {
		return s[:n]
	}
	return s
}

// Clip shortens a string for witnesses.
func Clip(s string, n int) string { return clip(s, n) }
