package e2e

import (
	"os"
	"runtime"
	"strconv"
	"strings"
	"sync/atomic"
	"time"
)

// Progress is the global progress counter of the stall rule (DESIGN.md §1): every monitored byte
// or completed operation bumps it.
var progress int64

// Bump records n units of progress.
func Bump(n int) { atomic.AddInt64(&progress, int64(n)) }

// StallWindow is W of the stall rule.
func StallWindow() time.Duration {
	if os.Getenv("VERIF_TIER") == "thorough" {
		return 45 * time.Second
	}
	return 20 * time.Second
}

// Outcome of waiting for an operation under the stall rule.
type Outcome int

const (
	Done         Outcome = iota // the operation completed
	Stalled                     // no progress on any monitored stream for W while nothing but the system under test was left to act
	Inconclusive                // W expired but the process was still busy (>half a core): cannot tell live-lock from slowness
)

func (o Outcome) String() string { return [...]string{"done", "stalled", "inconclusive"}[o] }

func cpuTicks() int64 {
	b, err := os.ReadFile("/proc/self/stat")
	if err != nil {
		return 0
	}
	s := string(b)
	if i := strings.LastIndex(s, ")"); i >= 0 {
		f := strings.Fields(s[i+1:])
		if len(f) > 13 {
			u, _ := strconv.ParseInt(f[11], 10, 64)
			k, _ := strconv.ParseInt(f[12], 10, 64)
			return u + k
		}
	}
	return 0
}

// Wait blocks until done is closed, or until no progress was made for the stall window.
func Wait(done <-chan struct{}) Outcome {
	return WaitW(done, StallWindow())
}

func WaitW(done <-chan struct{}, w time.Duration) Outcome {
	last := atomic.LoadInt64(&progress)
	lastChange := time.Now()
	ticks := cpuTicks()
	t := time.NewTicker(50 * time.Millisecond)
	defer t.Stop()
	for {
		select {
		case <-done:
			return Done
		case <-t.C:
		}
		if p := atomic.LoadInt64(&progress); p != last {
			last, lastChange, ticks = p, time.Now(), cpuTicks()
			continue
		}
		if el := time.Since(lastChange); el > w {
			used := float64(cpuTicks()-ticks) / 100.0 // seconds of CPU (USER_HZ=100) since the last progress
			if used > el.Seconds()*0.5*float64(runtime.GOMAXPROCS(0))/float64(runtime.GOMAXPROCS(0)) && used > el.Seconds()*0.5 {
				return Inconclusive
			}
			return Stalled
		}
	}
}

// Go runs f and returns a channel closed when it returns.
func Go(f func()) <-chan struct{} {
	ch := make(chan struct{})
	go func() {
		defer close(ch)
		f()
	}()
	return ch
}

// Stacks returns a (truncated) dump of all goroutines, for witnesses.
func Stacks() string {
	buf := make([]byte, 1<<18)
	return string(buf[:runtime.Stack(buf, true)])
}
