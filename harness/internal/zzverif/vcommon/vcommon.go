// Package vcommon is the part of the /verif harness that is shared by all monitors: the
// JSONL recorder every child process reports through, seeded PRNGs, and keyed byte streams.
// It is compiled into the socketace module through `go test -overlay` (see DESIGN.md §2.1).
package vcommon

import (
	"encoding/json"
	"fmt"
	"hash/fnv"
	"math/rand"
	"os"
	"runtime/debug"
	"strconv"
	"strings"
	"sync"
	"time"
)

// Rec is the recorder of one child process. All methods are safe for concurrent use.
type Rec struct {
	mu        sync.Mutex
	f         *os.File
	seed      int64
	tier      string
	shard     int
	shards    int
	evals     int64
	distinct  map[uint64]struct{}
	stats     map[string]int64
	sets      map[string]map[string]struct{}
	samples   int
	viol      int
	violBySig map[string]int64
	maxSamp   int
	start     time.Time
	Replay    json.RawMessage // case descriptor to replay (nil = normal run)
}

func envInt(name string, def int64) int64 {
	if v := os.Getenv(name); v != "" {
		if n, err := strconv.ParseInt(v, 10, 64); err == nil {
			return n
		}
	}
	return def
}

// Open creates the recorder from the environment set by bin/check.
func Open() *Rec {
	r := &Rec{
		seed:      envInt("VERIF_SEED", 1),
		tier:      os.Getenv("VERIF_TIER"),
		shard:     int(envInt("VERIF_SHARD", 0)),
		shards:    int(envInt("VERIF_SHARDS", 1)),
		distinct:  map[uint64]struct{}{},
		stats:     map[string]int64{},
		sets:      map[string]map[string]struct{}{},
		violBySig: map[string]int64{},
		maxSamp:   int(envInt("VERIF_MAXSAMPLES", 6)),
		start:     time.Now(),
	}
	if r.tier == "" {
		r.tier = "quick"
	}
	if p := os.Getenv("VERIF_OUT"); p != "" {
		f, err := os.OpenFile(p, os.O_CREATE|os.O_WRONLY|os.O_APPEND, 0644)
		if err != nil {
			panic(err)
		}
		r.f = f
	} else {
		r.f = os.Stdout
	}
	if p := os.Getenv("VERIF_REPLAY"); p != "" {
		b, err := os.ReadFile(p)
		if err != nil {
			panic(err)
		}
		var doc struct {
			Case json.RawMessage `json:"case"`
		}
		if err := json.Unmarshal(b, &doc); err != nil {
			panic(err)
		}
		r.Replay = doc.Case
	}
	r.line(map[string]interface{}{"t": "open", "seed": r.seed, "tier": r.tier, "shard": r.shard, "shards": r.shards, "pid": os.Getpid()})
	return r
}

func (r *Rec) Seed() int64    { return r.seed }
func (r *Rec) Tier() string   { return r.tier }
func (r *Rec) Thorough() bool { return r.tier == "thorough" }
func (r *Rec) Shard() int     { return r.shard }
func (r *Rec) Shards() int    { return r.shards }

// Mine says whether case number i belongs to this child's shard.
func (r *Rec) Mine(i int) bool { return i%r.shards == r.shard }

// Pick returns q for the quick tier and t for the thorough one.
func (r *Rec) Pick(q, t int) int {
	if r.Thorough() {
		return t
	}
	return q
}

func (r *Rec) line(m map[string]interface{}) {
	b, err := json.Marshal(m)
	if err != nil {
		b, _ = json.Marshal(map[string]interface{}{"t": "marshal-error", "err": err.Error()})
	}
	b = append(b, '\n')
	r.f.Write(b) // unbuffered on purpose: the line must be on disk before the case runs
}

// Mark records what is about to be executed, so that a process-fatal event can be attributed.
func (r *Rec) Mark(desc interface{}) {
	r.mu.Lock()
	defer r.mu.Unlock()
	r.line(map[string]interface{}{"t": "mark", "case": desc})
}

// Case counts one executed case. key identifies the case (distinctness); nontrivial says whether
// the deciding comparison actually ran on a non-empty observation.
func (r *Rec) Case(key string, nontrivial bool) {
	h := fnv.New64a()
	h.Write([]byte(key))
	r.mu.Lock()
	r.evals++
	if nontrivial {
		r.distinct[h.Sum64()] = struct{}{}
	}
	r.mu.Unlock()
}

// Stat adds delta to a named counter reported in the evidence.
func (r *Rec) Stat(name string, delta int64) {
	r.mu.Lock()
	r.stats[name] += delta
	r.mu.Unlock()
}

// StatMax keeps the maximum of a named value.
func (r *Rec) StatMax(name string, v int64) {
	r.mu.Lock()
	if cur, ok := r.stats["max:"+name]; !ok || v > cur {
		r.stats["max:"+name] = v
	}
	r.mu.Unlock()
}

// Seen adds an element to a named set of distinct things observed (reported as a count plus a few members).
func (r *Rec) Seen(set, elem string) {
	r.mu.Lock()
	s := r.sets[set]
	if s == nil {
		s = map[string]struct{}{}
		r.sets[set] = s
	}
	s[elem] = struct{}{}
	r.mu.Unlock()
}

// Sample writes out one actual case for the evidence (only the first few are kept per child).
func (r *Rec) Sample(v interface{}) {
	r.mu.Lock()
	defer r.mu.Unlock()
	if r.samples >= r.maxSamp {
		return
	}
	r.samples++
	r.line(map[string]interface{}{"t": "sample", "v": v})
}

// Violation records a refuting observation. sig is the narrow, seed-independent signature used
// to match /verif/known_findings.txt; desc is the replayable case descriptor.
func (r *Rec) Violation(sig string, desc interface{}, observed interface{}) {
	r.mu.Lock()
	defer r.mu.Unlock()
	r.viol++
	r.violBySig[sig]++
	if r.violBySig[sig] > 5 {
		return // counted (reported in the done line), not listed
	}
	r.line(map[string]interface{}{"t": "violation", "sig": sig, "case": desc, "observed": observed})
}

// Inconclusive records a case that could not be decided (watchdog, checker timeout, hook not reached).
func (r *Rec) Inconclusive(why string, desc interface{}) {
	r.mu.Lock()
	defer r.mu.Unlock()
	r.stats["inconclusive"]++
	r.line(map[string]interface{}{"t": "inconclusive", "why": why, "case": desc})
}

// InconclusiveCount is the number of inconclusive cases so far in this child: harnesses stop a work
// group early when watchdogs keep firing (every one costs its full window).
func (r *Rec) InconclusiveCount() int64 {
	r.mu.Lock()
	defer r.mu.Unlock()
	return r.stats["inconclusive"]
}

// ViolationCount is the number of violations recorded so far in this child.
func (r *Rec) ViolationCount() int {
	r.mu.Lock()
	defer r.mu.Unlock()
	return r.viol
}

// Note writes a free-form diagnostic line.
func (r *Rec) Note(msg string, kv interface{}) {
	r.mu.Lock()
	defer r.mu.Unlock()
	r.line(map[string]interface{}{"t": "note", "msg": msg, "kv": kv})
}

// Close writes the totals. A child log without this line means the process died.
func (r *Rec) Close() {
	r.mu.Lock()
	defer r.mu.Unlock()
	sets := map[string]interface{}{}
	for k, s := range r.sets {
		members := make([]string, 0, 8)
		for e := range s {
			members = append(members, e)
		}
		sets[k] = members
	}
	keys := make([]string, 0, len(r.distinct))
	for h := range r.distinct {
		keys = append(keys, strconv.FormatUint(h, 36))
	}
	r.line(map[string]interface{}{"t": "done", "evals": r.evals, "distinct": len(r.distinct), "distinct_keys": strings.Join(keys, " "),
		"stats": r.stats, "sets": sets, "viol_by_sig": r.violBySig, "wall_s": time.Since(r.start).Seconds()})
}

// Guard runs f and turns a panic into (panicked=true, site, value); site is the first frame of
// the stack that lies in socketace code (not the harness, not the runtime).
func Guard(f func()) (panicked bool, site string, val string) {
	defer func() {
		if x := recover(); x != nil {
			panicked = true
			val = fmt.Sprint(x)
			site = PanicSite(string(debug.Stack()))
		}
	}()
	f()
	return
}

// PanicSite extracts "file.go:func" of the innermost socketace frame below the panic.
func PanicSite(stack string) string {
	lines := strings.Split(stack, "\n")
	afterPanic := false
	for i := 0; i+1 < len(lines); i++ {
		l := lines[i]
		if strings.HasPrefix(l, "panic(") {
			afterPanic = true
			continue
		}
		if !afterPanic {
			continue
		}
		if strings.Contains(l, "bokysan/socketace") && !strings.Contains(l, "zzverif") && !strings.Contains(lines[i+1], "zz_verif") {
			fn := l
			if p := strings.LastIndex(fn, "/"); p >= 0 {
				fn = fn[p+1:]
			}
			if p := strings.Index(fn, "("); p > 0 && !strings.HasPrefix(fn, "(") {
				// keep "pkg.(*T).Method" / "pkg.Func", drop the argument list
				if q := strings.LastIndex(fn, "("); q > 0 && strings.HasSuffix(fn, ")") {
					fn = fn[:q]
				}
			}
			file := strings.TrimSpace(lines[i+1])
			if p := strings.LastIndex(file, "/"); p >= 0 {
				file = file[p+1:]
			}
			if p := strings.Index(file, ":"); p >= 0 {
				file = file[:p]
			}
			return file + ":" + fn
		}
	}
	return "unknown"
}

// NewRand returns a PRNG whose stream is a pure function of (seed, tag).
func NewRand(seed int64, tag string) *rand.Rand {
	h := fnv.New64a()
	fmt.Fprintf(h, "%d/%s", seed, tag)
	return rand.New(rand.NewSource(int64(h.Sum64())))
}

// ---- keyed streams -------------------------------------------------------------------------

func mix(x uint64) uint64 {
	x ^= x >> 33
	x *= 0xff51afd7ed558ccd
	x ^= x >> 33
	x *= 0xc4ceb9fe1a85ec53
	x ^= x >> 33
	return x
}

// KeyedByte is byte number off of the stream identified by key. All 256 values occur.
func KeyedByte(key uint64, off int64) byte {
	w := mix(key*0x9e3779b97f4a7c15 + uint64(off>>3))
	return byte(w >> (8 * uint(off&7)))
}

// FillKeyed fills buf with bytes off.. of stream key.
func FillKeyed(key uint64, off int64, buf []byte) {
	for i := range buf {
		buf[i] = KeyedByte(key, off+int64(i))
	}
}

// CheckKeyed returns the index of the first byte of buf that differs from stream key at off, or -1.
func CheckKeyed(key uint64, off int64, buf []byte) int {
	for i := range buf {
		if buf[i] != KeyedByte(key, off+int64(i)) {
			return i
		}
	}
	return -1
}

// Classify explains a mismatch: got (starting at stream offset off of key) is searched in the
// expected stream near off and in the streams of the other keys.
func Classify(key uint64, off int64, got []byte, others []uint64) string {
	n := len(got)
	if n > 16 {
		n = 16
	}
	if n < 4 {
		return "altered(short)"
	}
	probe := got[:n]
	match := func(k uint64, o int64) bool {
		if o < 0 {
			return false
		}
		for i := 0; i < n; i++ {
			if KeyedByte(k, o+int64(i)) != probe[i] {
				return false
			}
		}
		return true
	}
	for d := int64(1); d <= 1<<17; d++ {
		if match(key, off+d) {
			return fmt.Sprintf("loss(%d bytes skipped)", d)
		}
		if match(key, off-d) {
			return fmt.Sprintf("duplicate-or-reorder(%d bytes back)", d)
		}
	}
	for _, k := range others {
		if k == key {
			continue
		}
		for o := int64(0); o <= 1<<16; o++ {
			if match(k, o) {
				return fmt.Sprintf("cross-talk(from stream key %d offset %d)", k, o)
			}
		}
	}
	return "altered"
}
