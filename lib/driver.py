#!/usr/bin/env python3
"""Driver shared by all checks (see DESIGN.md §2.2).

It builds a harness test binary from VERIF_REPO's *current working tree* with `go test -c
-overlay`, runs it as child processes (one per shard), merges the children's JSONL logs, applies
/verif/known_findings.txt, writes /verif/evidence/<ID>.json and decides the exit code:

  0  held on everything explored (KNOWN-FINDING lines may have been printed)
  1  at least one violation that is not a listed finding (VIOLATION lines printed)
  2  the check itself could not run / observed nothing (inconclusive; never a claim)
"""
import concurrent.futures
import glob
import hashlib
import json
import os
import re
import shutil
import subprocess
import sys
import tempfile
import time

VERIF = os.path.dirname(os.path.dirname(os.path.abspath(__file__)))
REPO = os.environ.get("VERIF_REPO", "/repo")
MODULE = "github.com/bokysan/socketace/v2"

GOENV = dict(GOFLAGS="-mod=mod", GOPROXY="off", GOSUMDB="off", GOTOOLCHAIN="local")


def log(*a):
    print(*a, file=sys.stderr, flush=True)


class Ctx:
    def __init__(self, pid, tier, seed, replay=None):
        self.pid = pid
        self.tier = tier
        self.seed = seed
        self.replay = replay
        self.tmp = tempfile.mkdtemp(prefix="verif-%s-" % pid)
        self.t0 = time.time()
        self.env = dict(os.environ)
        self.env.update(GOENV)
        self.env["VERIF_SEED"] = str(seed)
        self.env["VERIF_TIER"] = tier
        self.env["VERIF_REPO"] = REPO
        self.env["VERIF_DIR"] = VERIF
        self.children = []  # dicts: name, out, log, rc, timeout, killed
        self.built = {}

    def cleanup(self):
        shutil.rmtree(self.tmp, ignore_errors=True)

    # ---- build ---------------------------------------------------------------------------
    def overlay(self):
        p = os.path.join(self.tmp, "overlay.json")
        if os.path.exists(p):
            return p
        rep = {}
        root = os.path.join(VERIF, "harness")
        for d, _, files in os.walk(root):
            for f in files:
                if f.endswith(".go"):
                    # in-package harness files are named zz_verif_<id>_*.go (or zz_verif_shared_*.go);
                    # only those of the property being checked are overlaid, so that a harness of one
                    # property can never break the build of another
                    if f.startswith("zz_verif_") and not (f.startswith("zz_verif_shared") or f.startswith("zz_verif_%s" % self.pid.lower())):
                        continue
                    src = os.path.join(d, f)
                    rel = os.path.relpath(src, root)
                    rep[os.path.join(REPO, rel)] = src
        json.dump({"Replace": rep}, open(p, "w"))
        shutil.copy(os.path.join(REPO, "go.mod"), os.path.join(self.tmp, "go.mod"))
        if os.path.exists(os.path.join(REPO, "go.sum")):
            shutil.copy(os.path.join(REPO, "go.sum"), os.path.join(self.tmp, "go.sum"))
        return p

    def build(self, pkg, race=False, tags="verif"):
        """pkg: path relative to the module root, e.g. internal/zzverif/c08"""
        key = (pkg, race)
        if key in self.built:
            return self.built[key]
        ov = self.overlay()
        out = os.path.join(self.tmp, pkg.replace("/", "_") + ("_race" if race else "") + ".test")
        cmd = ["go", "test", "-c", "-vet=off", "-tags", tags, "-overlay", ov,
               "-modfile", os.path.join(self.tmp, "go.mod"), "-o", out]
        if race:
            cmd.append("-race")
        cmd.append("./" + pkg)
        t = time.time()
        r = subprocess.run(cmd, cwd=REPO, env=self.env, stdout=subprocess.PIPE, stderr=subprocess.STDOUT, text=True)
        if r.returncode != 0 or not os.path.exists(out):
            log(r.stdout)
            raise BuildError("build of %s failed:\n%s" % (pkg, r.stdout[-4000:]))
        log("[build] %s race=%s %.1fs" % (pkg, race, time.time() - t))
        self.built[key] = out
        return out

    def build_main(self, pkg="cmd/socketace", race=False):
        out = os.path.join(self.tmp, "socketace-bin" + ("-race" if race else ""))
        if os.path.exists(out):
            return out
        cmd = ["go", "build", "-modfile", os.path.join(self.tmp, "go.mod"), "-o", out]
        self.overlay()
        if race:
            cmd.append("-race")
        cmd.append("./" + pkg)
        r = subprocess.run(cmd, cwd=REPO, env=self.env, stdout=subprocess.PIPE, stderr=subprocess.STDOUT, text=True)
        if r.returncode != 0:
            raise BuildError("build of %s failed:\n%s" % (pkg, r.stdout[-4000:]))
        return out

    # ---- run -----------------------------------------------------------------------------
    def child(self, binary, test, name, timeout, shard=0, shards=1, extra_env=None, race=False, cwd=None, args=None):
        out = os.path.join(self.tmp, name + ".jsonl")
        logf = os.path.join(self.tmp, name + ".log")
        env = dict(self.env)
        env["VERIF_OUT"] = out
        env["VERIF_SHARD"] = str(shard)
        env["VERIF_SHARDS"] = str(shards)
        env["VERIF_TMP"] = self.tmp
        if self.replay:
            env["VERIF_REPLAY"] = self.replay
        if race:
            env["GORACE"] = "halt_on_error=0 log_path=%s" % os.path.join(self.tmp, name + ".race")
        if extra_env:
            env.update(extra_env)
        wd = cwd or os.path.join(self.tmp, name + ".wd")
        os.makedirs(wd, exist_ok=True)
        cmd = ["timeout", "-s", "QUIT", "-k", "20", str(timeout), binary, "-test.run", "^%s$" % test,
               "-test.v", "-test.timeout", "0"] + (args or [])
        t = time.time()
        with open(logf, "w") as lf:
            r = subprocess.run(cmd, cwd=wd, env=env, stdout=lf, stderr=subprocess.STDOUT)
        c = dict(name=name, out=out, log=logf, rc=r.returncode, wall=time.time() - t, race=race,
                 timed_out=(r.returncode in (124, 137) or (r.returncode == 2 and time.time() - t >= timeout - 1)))
        return c

    def run_shards(self, binary, test, shards, timeout, prefix, extra_env=None, race=False, parallel=None):
        parallel = parallel or min(shards, 16)
        with concurrent.futures.ThreadPoolExecutor(max_workers=parallel) as ex:
            futs = [ex.submit(self.child, binary, test, "%s-%d" % (prefix, i), timeout, i, shards, extra_env, race)
                    for i in range(shards)]
            res = [f.result() for f in futs]
        self.children.extend(res)
        return res


def run_scaled(ctx, binary, test, shards, timeout, prefix):
    """Cheap checks: the quick tier runs the harness's large ("thorough") workload once; the thorough
    tier runs it at three seeds (seed, seed+7919, seed+15838), which deepens every seeded family."""
    seeds = [ctx.seed] if ctx.tier == "quick" else [ctx.seed, ctx.seed + 7919, ctx.seed + 15838]
    for i, sd in enumerate(seeds):
        ctx.run_shards(binary, test, shards, timeout, "%ss%d" % (prefix, i), extra_env={"VERIF_TIER": "thorough", "VERIF_SEED": str(sd)})
    return {"workload_scale": "harness 'thorough' workload x %d seed(s): %s" % (len(seeds), seeds)}


class BuildError(Exception):
    pass


# ---- aggregation -----------------------------------------------------------------------------

PANIC_RE = re.compile(r"^(panic: .*|fatal error: .*)$", re.M)


def crash_signature(logtext):
    """(kind, signature) for a child that died. kind: 'harness' when the innermost non-runtime
    frame is harness code, else 'sut'."""
    m = PANIC_RE.search(logtext)
    if not m:
        return None, None
    msg = m.group(1)
    msg = re.sub(r"0x[0-9a-f]+", "0x?", msg)
    msg = re.sub(r"\[recovered\]", "", msg).strip()
    msg = re.sub(r"\d+", "N", msg)[:120]
    tail = logtext[m.end():]
    frames = re.findall(r"^(\S.*?)\(.*\)\n\t(\S+?):(\d+)", tail, re.M)
    site = "unknown"
    kind = "sut"
    for fn, path, _ in frames:
        if "/runtime/" in path or fn.startswith("runtime.") or fn.startswith("panic"):
            continue
        if "bokysan/socketace" in fn or "/repo/" in path or "/verif/" in path:
            if "zzverif" in fn or "zz_verif" in path or "/verif/harness" in path:
                kind = "harness"
            site = os.path.basename(path) + ":" + fn.split("/")[-1]
            break
        # a frame in a dependency: keep looking for the socketace frame that called it
    return kind, "crash:%s@%s" % (msg, site)


def load_known(pid):
    findings = []
    p = os.path.join(VERIF, "known_findings.txt")
    if os.path.exists(p):
        for l in open(p):
            l = l.strip()
            m = re.match(r"finding:\s+property=(\S+)\s+key=(\S+)\s*(.*)$", l)
            if m and m.group(1) == pid:
                findings.append((m.group(2), m.group(3)))
    return findings


def finish(ctx, level, rule, assumptions, extra_cov=None, min_distinct=2, post=None):
    """Merge child logs → evidence, replays, exit code."""
    if ctx.replay:
        min_distinct = min(min_distinct, 1)
    evals = 0
    keys = set()
    stats = {}
    sets = {}
    samples = []
    marks = []        # descriptors of cases that were executed (fallback for samples)
    violations = []   # (sig, case, observed, child)
    sig_counts = {}
    inconclusive = []
    harness_errors = []
    races = {}
    for c in ctx.children:
        done = False
        last_mark = None
        child_listed = {}
        child_counts = None
        if os.path.exists(c["out"]):
            for l in open(c["out"], errors="replace"):
                try:
                    e = json.loads(l)
                except Exception:
                    continue
                t = e.get("t")
                if t == "mark":
                    last_mark = e.get("case")
                    if len(marks) < 8 and last_mark is not None:
                        marks.append(last_mark)
                elif t == "sample":
                    if len(samples) < 12:
                        samples.append(e.get("v"))
                elif t == "violation":
                    violations.append((e.get("sig"), e.get("case"), e.get("observed"), c["name"]))
                    child_listed[e.get("sig")] = child_listed.get(e.get("sig"), 0) + 1
                elif t == "inconclusive":
                    inconclusive.append(dict(why=e.get("why"), case=e.get("case"), child=c["name"]))
                elif t == "done":
                    done = True
                    child_counts = e.get("viol_by_sig") or {}
                    evals += e.get("evals", 0)
                    for k in (e.get("distinct_keys") or "").split():
                        keys.add(k)
                    for k, v in (e.get("stats") or {}).items():
                        if k.startswith("max:"):
                            stats[k] = max(stats.get(k, v), v)
                        else:
                            stats[k] = stats.get(k, 0) + v
                    for k, v in (e.get("sets") or {}).items():
                        sets.setdefault(k, set()).update(v)
        for sg, n in (child_counts if child_counts is not None else child_listed).items():
            sig_counts[sg] = sig_counts.get(sg, 0) + n
        logtext = open(c["log"], errors="replace").read() if os.path.exists(c["log"]) else ""
        if not done:
            kind, sig = crash_signature(logtext)
            if c["timed_out"] and sig is None:
                inconclusive.append(dict(why="watchdog: child %s killed after %.0fs" % (c["name"], c["wall"]), case=last_mark, child=c["name"]))
                save_log(ctx, c)
            elif sig is None:
                harness_errors.append("child %s exited rc=%s without a result: %s" % (c["name"], c["rc"], logtext[-1500:]))
                save_log(ctx, c)
            elif kind == "harness":
                harness_errors.append("child %s: harness crashed: %s\n%s" % (c["name"], sig, logtext[-3000:]))
                save_log(ctx, c)
            else:
                violations.append((sig, last_mark, dict(log_tail=logtext[-6000:]), c["name"]))
        elif c["rc"] != 0 and c.get("race") and "race detected during execution of test" in logtext and "--- FAIL" in logtext and logtext.count("--- FAIL") == 1 and "panic:" not in logtext:
            pass  # the only failure is the race detector's own verdict: races are diagnostics (DESIGN.md §3)
        elif c["rc"] != 0:
            # the Go test itself failed (t.Fatal in the harness): not a property verdict
            harness_errors.append("child %s: test binary exit %s: %s" % (c["name"], c["rc"], logtext[-1500:]))
            save_log(ctx, c)
        if c.get("race"):
            for rf in glob.glob(os.path.join(ctx.tmp, c["name"] + ".race*")):
                for blk in open(rf, errors="replace").read().split("==================\n"):
                    if "WARNING: DATA RACE" not in blk:
                        continue
                    fr = [re.sub(r"\(\)$", "", f) for f in re.findall(r"^  (\S+)\(\)\n", blk, re.M)]
                    sa = [f.split("/")[-1] for f in fr if "socketace" in f and "zzverif" not in f]
                    k = " | ".join(sorted(set(sa[:1] + sa[-1:]))) or "(no socketace frame)"
                    races[k] = races.get(k, 0) + 1

    if post:
        post(dict(violations=violations, inconclusive=inconclusive, stats=stats, sets=sets))

    known = load_known(ctx.pid)
    known_map = dict(known)
    for v in violations:  # crash signatures etc. that no child counted
        if (v[0] or "") not in sig_counts:
            sig_counts[v[0] or ""] = sig_counts.get(v[0] or "", 0) + 1
    new_sigs = {sg: n for sg, n in sig_counts.items() if sg not in known_map}
    known_hit = {(sg, known_map[sg]): n for sg, n in sig_counts.items() if sg in known_map}
    new_viol = [v for v in violations if (v[0] or "") in new_sigs]

    os.makedirs(os.path.join(VERIF, "replays", ctx.pid), exist_ok=True)
    replay_paths = []
    per_sig = {}
    for i, (sig, case, obs, child) in enumerate(new_viol):
        per_sig[sig] = per_sig.get(sig, 0) + 1
        if per_sig[sig] > 3 or (per_sig[sig] > 1 and len(replay_paths) >= 80):
            continue
        h = hashlib.sha1(json.dumps([sig, case], sort_keys=True, default=str).encode()).hexdigest()[:10]
        p = os.path.join(VERIF, "replays", ctx.pid, "%s-%s.json" % (ctx.tier, h))
        json.dump(dict(property=ctx.pid, seed=ctx.seed, tier=ctx.tier, signature=sig, case=case, observed=obs, child=child),
                  open(p, "w"), indent=1, default=str)
        replay_paths.append((sig, p))
    n_new = sum(new_sigs.values())

    if not samples:
        samples = marks
    cov = dict(evaluations=evals, distinct_nontrivial=len(keys), rule=rule, samples=samples,
               inconclusive=len(inconclusive), children=len(ctx.children))
    for k, v in sorted(stats.items()):
        cov["stat:" + k] = v
    for k, v in sorted(sets.items()):
        cov["distinct:" + k] = len(v)
        cov["some:" + k] = sorted(v)[:12]
    if races:
        cov["race_reports(diagnostic only)"] = races
    if inconclusive:
        cov["inconclusive_items"] = inconclusive[:10]
    if known_hit:
        cov["known_findings_reproduced"] = {k[0]: n for k, n in known_hit.items()}
    if extra_cov:
        cov.update(extra_cov)
    ev = dict(property_id=ctx.pid, tier=ctx.tier, seed=ctx.seed, level=level, coverage=cov,
              assumptions=assumptions, wall_s=round(time.time() - ctx.t0, 1), violations=n_new)
    if not ctx.replay and not os.environ.get("VERIF_NO_EVIDENCE"):
        os.makedirs(os.path.join(VERIF, "evidence"), exist_ok=True)
        json.dump(ev, open(os.path.join(VERIF, "evidence", ctx.pid + ".json"), "w"), indent=1, default=str)

    for (k, text), n in sorted(known_hit.items()):
        print("KNOWN-FINDING: property=%s key=%s (%d cases) %s" % (ctx.pid, k, n, text))
    for inc in inconclusive[:10]:
        print("INCONCLUSIVE: property=%s %s" % (ctx.pid, inc["why"]))
    rc = 0
    if new_sigs:
        sigs = {}
        for sig, p in replay_paths:
            sigs.setdefault(sig, p)
        for sig in sorted(new_sigs):
            print("VIOLATION property=%s replay=%s signature=%s count=%d" % (ctx.pid, sigs.get(sig, "(none)"), sig, new_sigs[sig]))
        rc = 1
    if harness_errors:
        for h in harness_errors[:5]:
            print("HARNESS-ERROR: property=%s %s" % (ctx.pid, h))
        if rc == 0:
            rc = 2
    if rc == 0 and len(keys) < min_distinct:
        print("INCONCLUSIVE: property=%s the run observed almost nothing (%d distinct non-trivial cases)" % (ctx.pid, len(keys)))
        rc = 2
    print("SUMMARY property=%s tier=%s seed=%d evaluations=%d distinct_nontrivial=%d violations=%d known=%d inconclusive=%d wall=%.0fs" % (
        ctx.pid, ctx.tier, ctx.seed, evals, len(keys), n_new, sum(known_hit.values()), len(inconclusive), time.time() - ctx.t0))
    return rc


def save_log(ctx, c):
    d = os.path.join(VERIF, "replays", ctx.pid, "logs")
    os.makedirs(d, exist_ok=True)
    try:
        txt = open(c["log"], errors="replace").read()
        open(os.path.join(d, c["name"] + ".log"), "w").write(txt[-200000:])
    except Exception:
        pass
