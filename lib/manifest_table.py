"""Source of MANIFEST.json (bin/mkmanifest)."""

SETUP_CMD = "true"

NOTES = ("All checks are runtime monitors over executions of the real code (DESIGN.md). Exit 0 = held on what was "
         "explored; 1 = VIOLATION lines; 2 = the check could not run or observed nothing (inconclusive, never a claim). "
         "Known genuine defects that are not repaired are listed in /verif/known_findings.txt.")

TABLE = {
    "C08": dict(
        ready=True, level="exploration",
        text="Reference-oracle monitor over generated executions of every selectable codec: identity round trip, output alphabet and "
             "length bound checked on ~0.8M (quick) / ~3.7M (thorough) inputs including all strings of length 0-2; held on those inputs, nothing more.",
        note="Trusts enc.FromCode to enumerate the selectable codecs; the oracle is byte equality, so no model of any codec is trusted.",
        technique="runtime monitoring: reference-oracle (round-trip/alphabet/length) monitor over seeded and small-scope-exhaustive inputs"),
}
