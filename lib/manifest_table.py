"""Source of MANIFEST.json (bin/mkmanifest)."""

SETUP_CMD = "cd /verif/checker && GOFLAGS=-mod=mod GOPROXY=off GOSUMDB=off GOTOOLCHAIN=local go build -o /verif/bin/porcheck ."

NOTES = ("All checks are runtime monitors over executions of the real code (DESIGN.md). Exit 0 = held on what was "
         "explored; 1 = VIOLATION lines; 2 = the check could not run or observed nothing (inconclusive, never a claim). "
         "Known genuine defects that are not repaired are listed in /verif/known_findings.txt.")

TABLE = {
    "C08": dict(
        ready=True, level="exploration",
        text="Reference-oracle monitor over generated executions of every selectable codec: identity round trip, output alphabet and "
             "length bound checked on ~0.8M (quick) / ~3.7M (thorough) inputs including all strings of length 0-2; held on those inputs, nothing more.",
        note="Trusts enc.FromCode to enumerate the selectable codecs; the oracle is byte equality, so no model of any codec is trusted.",
        technique="runtime monitoring: reference-oracle (round-trip/alphabet/length) monitor over seeded and small-scope-exhaustive inputs"),
    "C06": dict(
        ready=True, level="exploration",
        text="Real NewServerConnection/NewClientConnection driven over a scripted segmenting conn with grammar-generated, mutated and garbage "
             "handshake bytes under 4 (quick) / 8 (thorough) segmentations each; oracles: no panic, segmentation invariance of (session, status "
             "sequence, next-layer bytes), an executable reference grammar for generator-produced inputs, the one-way implication session => "
             "well-formed announce+upgrade for arbitrary inputs, and read-ahead preservation; StartTLS against a real crypto/tls peer and a websocket subset.",
        note="The reference grammar (~60 lines) is trusted as the reading of the statement; deviations the statement leaves open are excluded from "
             "exact prediction (still checked for panics/invariance). In-memory conns, so kernel-level coalescing is modelled by the split set.",
        technique="runtime monitoring: metamorphic (segmentation-invariance) and reference-model oracles over generated handshake inputs"),
    "C07": dict(
        ready=True, level="fault_enumeration",
        text="Real DNS client connection against the real server listener through an adversarial in-memory communicator that enumerates per-exchange "
             "fates (lost query, lost answer, duplicate, replay of queries up to 65700 exchanges old) from scripted families; keyed streams both ways, "
             ">70000 packets per direction across the 16-bit wrap from 7 starting sequence numbers; ~1.9M (quick) / ~20M (thorough) exchanges observed, "
             "repeated under the race detector.",
        note="Loss is modelled at the communicator interface with virtual timeouts (the wrapped net.Error the UDP communicator returns); "
             "verdicts count exchanges, never seconds. Delivery 'eventually' is restated as: within 4*outstanding+64 exchanges after faults stop.",
        technique="runtime monitoring: online prefix/exactly-once oracle on keyed streams under scripted fault injection at the DNS exchange boundary"),
    "C09": dict(
        ready=True, level="exploration",
        text="Every request type x field values (all 1296 user ids, boundary seq/ack, all option-flag combinations, every codec code) x 6 upstream "
             "codecs x every payload length 0..MTU x domains of length 4..120: encoded by the real serializer, question name checked independently "
             "(labels<=63, name<=253), packed/unpacked by miekg/dns, decoded exactly as the server's onMessage does, fields compared.",
        note="miekg/dns Pack/Unpack is taken as 'real DNS wire encoding'; the random cache-busting characters inside socketace are not controlled.",
        technique="runtime monitoring: round-trip reference oracle over the real encode -> wire -> decode path on enumerated/seeded inputs"),
    "C10": dict(
        ready=True, level="exploration",
        text="Every response type x error code x 8 record types x 8 downstream codecs x payload lengths (every length 0..300 and the record/string "
             "limits up to 65540) x contents x domains through the real encode -> Pack -> Unpack -> decode path; a reported failure at any stage "
             "is accepted, a silently different decoded response or a panic is a violation. Known genuine defects are listed in known_findings.txt.",
        note="Responses are restricted to what the server can form. Signatures are record type x codec x response family x failing layer.",
        technique="runtime monitoring: three-outcome round-trip oracle (identical / reported failure / silent difference) over enumerated inputs"),
    "C19": dict(
        ready=True, level="exploration",
        text="Model-based monitor over sequential call histories on compositions of the 12 real wrapper constructors over counting fake resources "
             "(Close succeeds or fails): exhaustive for depth<=2 and short histories, seeded random to depth 4 / 12 calls; asserts exactly-once close "
             "of the resource, nil on repeated Close, Closed() false before / true after.",
        note="Only the clauses the statement fixes are asserted; states where another wrapper of the chain was closed are not judged.",
        technique="runtime monitoring: reference-model oracle over enumerated and random call histories on instrumented fake resources"),
    "C01": dict(
        ready=True, level="exploration",
        text="Real server and client commands in one process on every carrier (17 kinds incl. TLS, StartTLS, websocket, stdio pipes, KCP with and "
             "without secret, DNS) x listener kind; the harness holds both ends of each logical connection (application socket, target's accepted "
             "socket) and compares keyed/zero/0xFF streams online in both directions at once for every boundary length and write size the code has "
             "(4096/32640/32768/65536 straddled), then checks end-of-stream exactly at the written length. ~700 connections quick; full "
             "length x write-size product in thorough.",
        note="Loopback sockets / in-process pipes stand for the network; DNS and KCP payload sizes are capped; completion is judged by the stall "
             "rule (no byte of progress for W seconds with only the system under test left to act), never by a deadline.",
        technique="runtime monitoring: online byte-stream comparator on keyed streams at both observation points of real end-to-end sessions"),
    "C11": dict(
        ready=True, level="fault_enumeration",
        text="Real client Handshake() against the real listener through path models applied to the wire form (case folding, 7-bit names, every "
             "subset of answered record types with timeout/NXDOMAIN/empty answers, answer size limits 512-8192 with drop or truncation, EDNS0 "
             "stripping, combinations); termination decided by counting exchanges (20000), and after a successful handshake keyed payloads of 1 "
             "byte..8 fragments go both ways over the same path. 40 behaviours quick, 640 thorough.",
        note="The path model is deterministic per message and identical in probing and data phases; 'terminates' is restated as <=20000 exchanges.",
        technique="runtime monitoring: fault-injecting path model at the DNS exchange boundary + termination counter + keyed-stream oracle"),
    "C18": dict(
        ready=True, level="exploration",
        text="Reference table transcribed from the README (scheme -> transport, encrypted?) for server/channel/upstream/listener positions; the real "
             "parsers are run in-process on YAML, JSON and command-line forms of every documented scheme and of near-misses (metamorphic agreement "
             "between forms, errors not panics), and the real binary is started with generated configurations while a transport classifier probes "
             "what actually listens / what the client emits first. ~4700 evaluations quick.",
        note="The README is the specification; undocumented schemes are only judged for their natural reading when accepted. Known findings listed.",
        technique="runtime monitoring: black-box transport classification of the real binary + in-process parser oracle against a documented table"),
    "C02": dict(
        ready=True, level="exploration",
        text="Scripted coordinator holds 1-6 other logical connections of one physical session in chosen states (idle, unread data either/both ways "
             "under the shared 4 MiB, closed on one side only, busy) for as long as needed and issues open/echo/transfer/close on another one, which "
             "must complete under the stall rule; plus free-running stress with k=2..16 goroutines on tagged connections where every stream is keyed "
             "by its connection so foreign bytes are attributed; repeated with GOMAXPROCS=2, under -race and with delays at the accept hook.",
        note="Interleavings are sampled, not enumerated; the evidence lists the (state-set, operation) pairs actually exercised.",
        technique="runtime monitoring: scripted-interleaving coordinator + keyed-stream isolation oracle on real multiplexed sessions, race detector as stress amplifier"),
    "C05": dict(
        ready=True, level="exploration",
        text="Reference model admit = (insecure or cert chains to configured CA, valid, matches the host written in the URL) and (not requireClientCert or "
             "client cert signed by the server's CA); UDP: secrets equal. Every cell of {6 server certificates x insecure x 4 client-certificate "
             "behaviours x require x 6 TLS/StartTLS carriers x host spelling} (thorough: all 1056; quick: ~190 covering every level pairwise) is "
             "established through the real client and judged by whether a probe byte reaches the recording target; both directions of disagreement are violations.",
        note="Admission is observed at the target (probe byte) and refusal by a barrier connection through the target's accept queue, not by timers; "
             "a pending connect on an expected refusal counts as not admitted.",
        technique="runtime monitoring: reference-model (admission table) oracle over an enumerated configuration matrix of real TLS sessions"),
    "C12": dict(
        ready=True, level="exploration",
        text="Grammar-generated single-question DNS messages (every command letter, short/foreign/bare-domain names, all field extremes, every query type "
             "and class) are handed to the real server's onMessage from foreign and session-owning addresses while a victim session's in-package state "
             "snapshot must stay identical and keep moving keyed data; per message: no panic, allocation <= 8 MiB, returns; memory bombs run in ulimit'd "
             "children. Hostile answer sections are fed to the real client decode path (no panic). ~290k messages quick, ~4M thorough + race/checkptr pass.",
        note="Messages miekg's server rejects before the handler (Qdcount != 1, compression loops) are counted, not judged. Production has no recover, so "
             "any panic in the handler path is a crash.",
        technique="runtime monitoring: grammar-based hostile-input generation with panic/allocation/state-snapshot monitors on the real handlers"),
    "C15": dict(
        ready=True, level="fault_enumeration",
        text="For each server endpoint kind (tcp, unix, TLS, StartTLS, ws, wss, KCP, DNS) 1-8 scripted peers stall for ever at one of 11 points "
             "(after connect, inside the request line, between the two requests, inside a TLS hello, after 101, after upgrade silent/garbage/half frame ...) "
             "and then real clients must handshake and move keyed data while the stalled peers are still connected; 71 scenarios quick, 1056 thorough.",
        note="Stalled peers never move, so the verdict cannot depend on timing; completion is judged by the stall rule.",
        technique="runtime monitoring: fault enumeration of stall points with scripted peers against real servers, completion oracle on real clients"),
    "C17": dict(
        ready=True, level="exploration",
        text="On every carrier, either end writes a keyed payload of 0 B..3 MiB and closes (full close right after the last Write, or half-close and read "
             "to the end) with 0 or 3 other busy logical connections and with the opposite direction idle or busy; the other end must read exactly the "
             "payload and then end-of-stream and no side may be left with a connection that never terminates; hook delays widen the write/close race; "
             "repeated under -race. ~880 closes per quick run.",
        note="'Bounded time' is the stall rule. Data written by the end that is being closed upon (reverse direction) is not judged.",
        technique="runtime monitoring: keyed-stream + end-of-stream oracle on real sessions with injected delays at the close hooks"),
    "C03": dict(
        ready=True, level="exploration",
        text="Reference model expected(endpoint, name) = target(name) if configured and allowed else REFUSED, judged on real servers of every kind (tcp, "
             "unix, two websocket paths, udp, stdio, dns) through the real client path and through a raw multistream client (several names on one "
             "stream, ls, valid-after-invalid): which recording target accepted (distinct banners, bytes pushed through) and, for refusals, that no "
             "target accepted anything (barrier connection through each target's accept queue). All tables of length 1-2 over an 8-name pool with all "
             "allow-list subsets in both orders are enumerated for tcp and ws; ~110k requests quick.",
        note="Targets are unix sockets in the child's private directory so that only the server under test can reach them.",
        technique="runtime monitoring: reference-model (routing table) oracle with accept-queue barriers on real sessions, small-scope exhaustive configurations"),
    "C04": dict(
        ready=True, level="fault_enumeration",
        text="(A) wire observer: real client <-> recording relay <-> real server over 11 carriers x certificate x --secure x --insecure; a random marker in "
             "the payload is searched in the de-framed capture (websocket unmasked, DNS decoded, KCP datagrams) and both ends' secure flags are compared "
             "(client object, server.session hook); (B) ~2000 scripted-server behaviours (capability forms x continuations x error answers) against the real "
             "client: no marker in clear when security is required or StartTLS was advertised; (C) plaintext peers against TLS endpoints never get a session.",
        note="A hand-written client that ignores an offered StartTLS is outside the statement (recorded as observation). udp+secret wires are AES "
             "encrypted, so only the flags are judged there.",
        technique="runtime monitoring: wire-capture marker search + secure-flag agreement on real sessions, scripted-peer fault enumeration"),
    "C13": dict(
        ready=True, level="exploration",
        text="One real listener, 2-32 clients each behind its own source address on the in-memory DNS network: (a) concurrent handshakes/transfers/closes "
             "with a recorder around onMessage; the history {open->id, use(id,addr)->result, close} with stamps from one atomic counter is partitioned by slot and "
             "checked for linearizability with porcupine against a slot model (free/live(owner)/retired(owner)), plus online monitors (no id handed out while live, "
             "keyed streams contain only their own key), plain and under -race with delays at the dns.newUser.slot hook; (b) every command spoofed with a live id "
             "from a foreign address leaves the victim's in-package snapshot unchanged and its next transfer exact; (c) the same against retired ids and reused "
             "slots; (d) real expiry passes (observed through the dns.expiry.pass hook) with shortened timeouts: a live session survives the expiry of an earlier one.",
        note="Exact tunnel error codes are diagnostics, not verdicts (an unlocked reader may see either of two rejection codes). Expiry waits for real "
             "one-minute passes; the oracle is the logical outcome after an observed pass.",
        technique="runtime monitoring: porcupine linearizability check of recorded histories + state-snapshot and keyed-stream monitors, hook-injected delays"),
    "C14": dict(
        ready=True, level="fault_enumeration",
        text="One scenario per child process. Growth: probe vector (goroutines by function class, descriptors after GC, outstanding copy loops from hook "
             "counters) at quiescent points after N1 and N2 finished logical connections (sequential either side closing first, overlapping, mixed) may differ by <= 4. "
             "Session end: with two logical connections open the physical session is ended 8 ways (client shutdown, relay FIN/RST, one-sided cuts, garbage either way, "
             "black-holed carrier) and all session-attributable goroutines/copy loops/descriptors must be gone within 75 s; then a 3 s idle window must show no "
             "accept-loop spinning (hook counter) and < 0.5 core CPU.",
        note="Client and server share the process, so footprints are judged jointly against the pre-session baseline. 'Eventually reclaimed' is restated as "
             "within 75 s (the multiplexer's keep-alive needs up to 60 s to notice a silent carrier).",
        technique="runtime monitoring: goroutine/descriptor/CPU census at quiescent points + hook counters, enumeration of session-ending faults via relays"),
    "C16": dict(
        ready=True, level="fault_enumeration",
        text="Reference policy model judged on real clients: upstream lists of 1-4 entries (tcp, tcp+tls, ws, udp) with every failing subset for length <= 3 in "
             "every manner (refused, silent for ever, silent after the carrier handshake, 400/garbage/close, plaintext while --secure), forward address "
             "none/reachable/refused; who served is observed by per-endpoint recording targets and the recorded Connect calls; m in {2,8,32} concurrent local "
             "connections with a sleep at the upstream.locked hook must share one physical session (relay count and server.session hook); 26 loss histories "
             "(FIN/RST idle, mid-transfer, during open, server restart/gone, black hole) after which the next local connection must be served over a new session.",
        note="A silent upstream is judged never-abandoned only after >= 90 s without the next upstream being tried and with the stall rule satisfied.",
        technique="runtime monitoring: reference-policy oracle over enumerated failure subsets and loss histories on real clients with scripted upstreams and relays"),
}
